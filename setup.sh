#!/bin/sh
# Build the verification framework offline from files on disk only.
set -e
cd "$(dirname "$0")"
export CARGO_NET_OFFLINE=true
python3 gen_shadow.py -v
for c in sim conc; do
  if [ -f "$c/Cargo.toml" ]; then
    (cd "$c" && cargo build --release --offline)
  fi
done
echo "setup done"
