"""Which harness runs decide which property, per tier (see DESIGN.md sections 5 and 6)."""

COMPONENTS = {
    "real": [
        "aquatic_udp (all but the io_uring backend; prometheus feature on)", "aquatic_http and aquatic_ws (TLS off; prometheus / metrics features on)",
        "aquatic_common", "aquatic_udp_protocol / aquatic_http_protocol / aquatic_ws_protocol / aquatic_peer_id as used by the trackers",
        "tungstenite, httparse, serde_bencode, simd-json, blake3, indexmap, hashbrown, arc-swap, crossbeam-channel",
    ],
    "stub": [
        "OS thread scheduling (baton engine)", "monotonic clock", "UDP sockets + SO_REUSEPORT distribution + dual-stack mapping",
        "TCP byte streams", "glommio executor / channels / timers (shims/glommio)", "signals", "file open/read/write/close steps",
        "OS entropy (getrandom custom backend)", "hashbrown's hash seed (vendored foldhash)",
        "prometheus exporter thread (rt::metrics: bind + render ticks as seam calls; tokio / hyper not run)", "metrics recorder (sim/src/recorder.rs records gauges / counters)",
    ],
}


def J(harness, runs, crate="sim", **kw):
    d = {"crate": crate, "harness": harness, "runs": runs}
    d.update(kw)
    return d


PLAN = {
    "C01": {"quick": [J("udp_store", 40000), J("udp_sys", 1600), J("export_crash", 6000)],
            "thorough": [J("udp_store", 3000000), J("udp_sys", 50000), J("export_crash", 200000)]},
    "C03": {"quick": [J("udp_sys", 1600), J("http_sys", 3000), J("ws_sys", 2000), J("udp_store", 15000), J("http_store", 15000)],
            "thorough": [J("udp_sys", 50000), J("http_sys", 100000), J("ws_sys", 60000), J("udp_store", 500000), J("http_store", 500000)]},
    "C06": {"quick": [J("udp_sys", 3200)], "thorough": [J("udp_sys", 100000)]},
    "C12": {"quick": [J("udp_sys", 2400), J("http_sys", 4000), J("ws_sys", 2500), J("parsers", 80000)],
            "thorough": [J("udp_sys", 50000), J("http_sys", 100000), J("ws_sys", 60000), J("parsers", 3000000)]},
    "C16": {"quick": [J("http_sys", 8000)], "thorough": [J("http_sys", 300000)]},
    "C17": {"quick": [J("ws_sys", 5000)], "thorough": [J("ws_sys", 150000)]},
    "C18": {"quick": [J("udp_sys", 480), J("http_sys", 640)], "thorough": [J("udp_sys", 10000), J("http_sys", 10000)]},
    "C19": {"quick": [J("udp_sys", 2400), J("http_sys", 3000), J("ws_sys", 2500)], "thorough": [J("udp_sys", 60000), J("http_sys", 60000), J("ws_sys", 60000)]},
    "C02": {"quick": [J("udp_store", 12000), J("http_store", 30000), J("ws_store", 60000), J("lattice", 320)],
            "thorough": [J("udp_store", 500000), J("http_store", 1500000), J("ws_store", 2000000), J("lattice", 4000)]},
    "C04": {"quick": [J("udp_conc", 320, crate="conc")], "thorough": [J("udp_conc", 4000, crate="conc")]},
    "C05": {"quick": [J("validator", 400000), J("udp_sys", 800)], "thorough": [J("validator", 10000000), J("udp_sys", 50000)]},
    "C07": {"quick": [J("http_store", 60000), J("http_sys", 2500)], "thorough": [J("http_store", 3000000), J("http_sys", 60000)]},
    "C08": {"quick": [J("ws_store", 150000), J("ws_sys", 2500)], "thorough": [J("ws_store", 3000000), J("ws_sys", 60000)]},
    "C09": {"quick": [J("ws_store", 150000), J("ws_sys", 2500)], "thorough": [J("ws_store", 3000000), J("ws_sys", 60000)]},
    "C10": {"quick": [J("udp_store", 25000), J("http_store", 40000), J("ws_store", 80000), J("udp_sys", 1200), J("http_sys", 2000), J("ws_sys", 2000)],
            "thorough": [J("udp_store", 1000000), J("http_store", 1000000), J("ws_store", 1000000), J("udp_sys", 30000), J("http_sys", 30000), J("ws_sys", 30000)]},
    "C11": {"quick": [J("accesslist", 4000), J("udp_sys", 1200), J("http_sys", 2000), J("ws_sys", 1500)],
            "thorough": [J("accesslist", 200000), J("udp_sys", 30000), J("http_sys", 30000), J("ws_sys", 30000)]},
    "C20": {"quick": [J("udp_store", 30000), J("udp_sys", 1200), J("export_crash", 12000)],
            "thorough": [J("udp_store", 1000000), J("udp_sys", 30000), J("export_crash", 400000)]},
}

_STORE_RULE = ("one run = one generated history (announce / scrape / clean / advance-clock operations, config knobs and RNG seed "
               "all derived from VERIF_SEED and the run index) executed against the real storage code and the reference tracker; "
               "evaluations = operations whose reply was compared with the model; a run is non-trivial if it contains at least one "
               "removal (stop or expiry) and one announce that found other peers; distinct = distinct behaviour signatures, i.e. the "
               "sequence of (operation kind, event, was-present, seeder, swarm-size class before/after, removed-count class, "
               "clean-at-deadline flags) - not merely distinct inputs")

_SYS_RULE = ("one run = one generated scenario (configuration knobs, socket layout, 1-8 client scripts of connects / announces / scrapes / "
             "malformed datagrams with per-datagram network faults, operator reloads, process faults, scheduler strategy and seed) executed by "
             "running the tracker's real run(config) inside the discrete-event engine; evaluations = datagrams received by the tracker and "
             "judged against the protocol model and the reference tracker; non-trivial = at least three answered well-formed requests and one "
             "rejected datagram; distinct = distinct (oracle outcome sequence, schedule signature) pairs, the schedule signature being the "
             "sequence of (thread, seam-call kind) over the whole run")

_WS_RULE = ("one run = one generated history of open / announce (with offers, answers) / scrape / close / clean / advance-clock over up to "
            "40 connections on up to 3 simulated socket workers whose connection ids coincide; evaluations = storage calls whose "
            "out-messages were judged against the WebTorrent reference model; non-trivial = at least one removal and one relayed "
            "offer or answer; distinct = distinct behaviour signatures (operation kind, event, existed, seeder, offers forwarded, "
            "answer expected/present, entries removed by close, foreign-owner flags)")

PROPS = {
    "C01": {"level": "exploration", "rule": _STORE_RULE,
            "expect_probes": ["inline-to-heap", "heap-to-inline-by-stop", "seeder-status-flip", "clean-removed-something"],
            "assumptions": ["reference tracker of DESIGN.md section 4 is the specification", "sampling, not enumeration"]},
    "C02": {"level": "exploration", "rule": _STORE_RULE, "expect_probes": ["swarm-exceeds-limit", "numwant-nonpositive"],
            "assumptions": ["UDP storage RNG is a concrete SmallRng seeded per run (offsets sampled, not enumerated); HTTP storage and the WebTorrent selection routine take the simulator's adversarial RNG that forces both ends of every random_range",
                            "the lattice harness sweeps swarm sizes 0..40 (quick) / 0..160 (thorough) x 16 limits x 4 requester positions x 8 RNG outcomes completely"]},
    "C04": {"level": "exploration",
            "rule": ("one run = one generated program (0-4 sequential pre-operations, then 2-4 threads with 1-3 operations each: announce / stop / "
                     "scrape of 1-3 torrents / cleaning pass, over 3 torrents of which two share a shard, deadlines straddling the cleaning time) "
                     "executed under 1500 (quick) or 10000 (thorough) shuttle schedules (PCT depth 1-4 for 80% of the programs, uniform random for "
                     "the rest); evaluations = schedules whose history was checked for linearizability; every run is non-trivial (>= 2 concurrent "
                     "threads on shared TorrentMaps); distinct = distinct (program, interleaving) pairs where the interleaving is the sequence of "
                     "(lock event kind, acting thread) over all RwLock acquisitions, upgrades and releases"),
            "expect_probes": ["schedules-executed", "lock-acquisitions-that-blocked", "lock-upgrades"],
            "assumptions": ["lock acquisitions/releases are the complete set of scheduling points (std Arc and atomics are not)",
                            "the shuttle-backed RwLock models parking_lot's blocking rules (writer preference, one upgradable reader)",
                            "a cleaning pass's reported peer total is part of its reply: it must equal the sum of the peers left in each torrent at the instant that torrent's share of the pass is linearized (the torrent total is taken at another instant and is not judged here)",
                            "a history whose linearizability search exceeds its budget is not reported"]},
    "C03": {"level": "exploration", "rule": _SYS_RULE + "; STORE runs as for C01/C07 with IPv4, IPv6, low (::/96) and IPv4-mapped sources",
            "expect_probes": ["announce-via-dual-stack-mapped-source", "spoofed-source", "ipv4-mapped-source", "low-ipv6-source"],
            "assumptions": ["source addresses are assigned by the simulated network; in-request address fields always name another host"]},
    "C06": {"level": "exploration", "rule": _SYS_RULE,
            "expect_probes": ["announce-without-valid-id", "scrape-without-valid-id", "malformed-request", "garbage-datagram", "source-port-zero", "scrape-longer-than-limit", "reply-resent-from-resend-buffer", "error-reply-to-malformed-request"],
            "assumptions": ["mio backend only (the io_uring backend is not simulated)", "worker clock samples may lag by 256 poll timeouts: connection-id validity inside that window is accepted either way"]},
    "C12": {"level": "exploration", "rule": _SYS_RULE + "; here every client datagram may be truncated, extended, bit-flipped, replaced or spoofed in flight",
            "expect_probes": ["malformed-request", "garbage-datagram", "spoofed-source"],
            "assumptions": ["sampled, fault-driven input corruption only - not a substitute for coverage-guided fuzzing of the parsers (weakest claim)", "harness built with overflow checks on; any panic of a tracker thread is a violation",
                            "a counting global allocator bounds the bytes a tracker thread allocates between receiving network input and its next seam call by 64 x input + 1 MiB",
                            "the parsers harness replays network-shaped damage (truncation at every offset, extension, bit flips, replacement) directly at the server- and client-side parsing entry points"]},
    "C16": {"level": "exploration",
            "rule": ("one run = one generated scenario (1-3 socket x 1-3 swarm workers, listener layout, keep-alive on/off, reverse-proxy mode, limits, 2-6 "
                     "client connections issuing announces / scrapes cut into TCP segments at arbitrary bytes (also inside the final CRLFCRLF), malformed and "
                     "oversized requests, mid-request resets, tracker-side short writes, tiny socket buffers with slow readers, access-list reloads) "
                     "executed by running aquatic_http::run(config) over the glommio stand-in in the engine; evaluations = request/reply exchanges judged "
                     "by the independent HTTP/1.1 + bencode reader; per torrent the client-observed history must be linearizable against one reference "
                     "tracker; non-trivial = at least three complete replies; distinct = distinct schedule signatures (sequence of (thread, seam kind))"),
            "expect_probes": ["torrent-history-checked", "overlapping-requests-on-one-torrent", "exchange-excused-by-injected-fault"],
            "assumptions": ["glommio is replaced by shims/glommio (arbitrary task order, FIFO channels, no cross-channel order): a violation that needs a behaviour real glommio cannot produce would be a false alarm; stub semantics are transcribed from glommio 0.9.0 (DESIGN 2.2)",
                            "TLS and metrics features off", "torrents touched by a reset request or by a reload in progress are not judged"]},
    "C17": {"level": "exploration",
            "rule": ("one run = one generated scenario (1-3 socket x 1-3 swarm workers, IPv4 / IPv6 / dual-stack listener, 2-6 tungstenite WebSocket clients that announce "
                     "with offers, answer received offers, send bogus answers, reuse other connections' peer ids, announce a second peer id, scrape over several "
                     "swarm workers, send malformed messages, close with a close frame or reset abruptly - also immediately after an announce) executed by "
                     "running aquatic_ws::run(config) over the glommio stand-in; evaluations = client-side protocol events judged; at quiescence two observer "
                     "connections scrape every torrent and the result must equal the peers of the connections still open; non-trivial = at least three replies; "
                     "distinct = distinct schedule signatures"),
            "expect_probes": ["offers-and-answers-relayed", "answer-relayed", "final-scrape-entry-judged", "second-peer-id-connection-ended", "connection-ended-before-quiescence"],
            "assumptions": ["glommio stand-in as for C16", "peer ids used by more than one connection on a torrent make that torrent's outcome order-dependent: it is not judged",
                            "real tungstenite handshake and framing on both sides"]},
    "C18": {"level": "exploration", "rule": _SYS_RULE + "; here limits are drawn from {1,30,112,113,170,454,455,1000} x {1,70,170,255} and the workload builds the worst accepted case (swarm > limit, numwant = limit, 255-hash scrape)",
            "expect_probes": ["scrape-longer-than-limit"],
            "assumptions": ["mio backend's 8192-byte buffer only", "HTTP part pending HTTP-SYS"]},
    "C19": {"level": "fault_enumeration", "rule": _SYS_RULE + "; here 85% of the runs inject exactly one worker death: socket set-up failure, loop end, spawn failure, signal iterator closed, panic at the n-th seam call or at a given time, for every worker kind",
            "expect_probes": ["worker-death-observed", "metrics-worker-death-observed"],
            "assumptions": ["the metrics worker's body is a simulated thread (bind, render ticks); spawning, registering and watching it is the real run() code", "time only advances when every simulated thread is blocked, so the 10 s bound is exact"]},
    "C05": {"level": "exploration",
            "rule": ("one run = one generated sequence of clock advances, per-worker clock refreshes, id issues, honest checks (same / other "
                     "address, before / at / after expiry, stale or advanced worker clocks) and forgeries (1-bit, 2-bit, arbitrary, other "
                     "tracker instance) against the real ConnectionValidator clones; evaluations = issue/check/forgery calls judged; "
                     "non-trivial = at least one acceptance, one expiry rejection and one wrong-address or future-time rejection; "
                     "distinct = distinct sequences of (outcome, same-ip, age-ok, future-ok, at-boundary, forgery kind)"),
            "expect_probes": ["accepted-in-last-valid-second", "rejected-exactly-at-expiry", "rejected-future-issue-time", "accepted-via-ipv4-mapped-form", "forgery-one-bit", "forgery-other-instance"],
            "assumptions": ["a forged id accepted by chance (2^-32) is discarded only if it is rejected under a second key", "tracker uptime below 2^32 seconds"]},
    "C07": {"level": "exploration", "rule": _STORE_RULE,
            "expect_probes": ["inline-to-heap", "heap-to-inline-by-stop", "scrape-repeated-hash", "scrape-longer-than-limit"],
            "assumptions": ["reference tracker of DESIGN.md section 4 is the specification", "sampling, not enumeration"]},
    "C08": {"level": "exploration", "rule": _WS_RULE,
            "expect_probes": ["foreign-announce", "foreign-announce-coinciding-connection-id", "close-after-ignored-announce", "close-removed-entries"],
            "assumptions": ["the socket worker's per-connection announced_info_hashes bookkeeping is mirrored in the STORE harness (the real one runs in WS-SYS)"]},
    "C09": {"level": "exploration", "rule": _WS_RULE,
            "expect_probes": ["offer-forwarded", "answer-forwarded", "answer-without-live-offer", "offer-expired-by-clean", "offer-forwarded-across-socket-workers"],
            "assumptions": ["offer receivers are chosen by the tracker's RNG; the oracle validates the choice instead of predicting it"]},
    "C10": {"level": "exploration", "rule": _STORE_RULE,
            "expect_probes": ["clean-exactly-at-deadline", "clean-one-second-before-deadline", "expiry-in-heap-map"],
            "assumptions": ["monotonic clock without jumps", "tracker uptime below u32::MAX seconds"]},
    "C11": {"level": "fault_enumeration",
            "rule": ("one run = one generated sequence of list-file reloads (contents: upper/lower-case hex, blank lines, surrounding whitespace, "
                     "CRLF; faults: missing file, open denied, read error after b bytes, short reads, malformed lines of 6 kinds) and cleaning "
                     "passes of all three storages; in addition the last good file of every run is reloaded with each malformed-line kind at "
                     "EVERY line position and with a read error after EVERY byte count (systematic enumeration); evaluations = reloads, "
                     "allow/deny probes and storage cleans judged; non-trivial = at least one successful and one failed reload; distinct = "
                     "distinct sequences of (reload outcome, line count, fault present, permitted-torrent count)"),
            "expect_probes": ["reload-ok", "reload-failed-bad-line", "reload-failed-missing-file", "reload-failed-read-error", "enumerated-bad-line-position", "enumerated-read-error-position", "clean-removed-forbidden-torrents"],
            "assumptions": ["list files are real files in a per-process scratch directory read through the file seam", "the announce gate itself is exercised in the SYS harnesses"]},
    "C20": {"level": "fault_enumeration", "rule": _STORE_RULE, "expect_probes": ["peer-id-change"],
            "assumptions": ["process-kill crash model (no power-loss reordering)"]},
}

NOT_APPLICABLE = [
    {"property_id": "C13", "reason": "pure function of the message value / byte string: no schedule, clock, fault or interleaving for a simulator to own (DESIGN.md section 7)"},
    {"property_id": "C14", "reason": "pure function of its input (codec round-trip, canonical bencode): nothing to simulate (DESIGN.md section 7)"},
    {"property_id": "C15", "reason": "pure function of its input (JSON codec, 20-byte identifiers): nothing to simulate (DESIGN.md section 7)"},
]

_SIM = "seeded deterministic simulation against a reference model"
TEXT = {
    "C01": {"engine": "sim", "design_ref": "6.C01", "technique": _SIM + " (refinement over generated histories, stepped clock)",
            "level_text": "Seeded exploration: generated announce/scrape/clean histories are executed against the real aquatic_udp storage and refined operation by operation against a naive reference tracker; evidence bounded by the number and diversity of histories (reported).",
            "level_note": "Trusted: the reference tracker (sim/src/model.rs), the stepped clock seam; sampling, not proof."},
    "C02": {"engine": "sim", "design_ref": "6.C02", "technique": _SIM + " (peer-list clauses checked on every announce reply)",
            "level_text": "Seeded exploration over swarm sizes, requested counts, configured maxima, requester positions and RNG seeds; every reply is checked against the C02 clauses.",
            "level_note": "UDP and WS storage take a concrete SmallRng, so offsets are sampled via seeds rather than enumerated."},
    "C04": {"engine": "conc", "design_ref": "6.C04", "technique": "seeded schedule exploration (shuttle PCT + random) with a linearizability checker and deadlock detection",
            "level_text": "Seeded exploration of thread interleavings at lock granularity: the real swarm code runs on 2-4 shuttle threads over a shuttle-backed RwLock; each history (plus a final quiescent sweep) must be linearizable against the reference tracker, and any deadlock reported by shuttle is a violation.",
            "level_note": "Schedules are sampled (PCT depth <= 4), not enumerated; Arc::get_mut is evaluated under the shard write lock so lock operations are the only scheduling points that matter."},
    "C03": {"engine": "sim", "design_ref": "6.C03", "technique": _SIM + " (source addresses assigned by the simulated network)",
            "level_text": "Seeded exploration: the whole UDP tracker runs in the engine; peers handed out are refined against a reference tracker keyed by the network-level source (canonicalised) and announced port, with spoofed in-request address fields, dual-stack sockets and IPv4-mapped presentation.",
            "level_note": "HTTP/WS whole-system parts are added by HTTP-SYS / WS-SYS; storage-level address handling is covered by the STORE harnesses."},
    "C06": {"engine": "sim", "design_ref": "6.C06", "technique": _SIM + " (whole tracker in the engine; oracle over the recorded recv/send event log)",
            "level_text": "Seeded exploration of the real run(config) under the discrete-event engine with datagram faults: every received datagram is matched with the datagrams its worker sent before its next receive and judged against an independent BEP 15 model.",
            "level_note": "mio backend only; connection-id validity is modelled with the worker clock lag as an uncertainty interval."},
    "C12": {"engine": "sim", "design_ref": "6.C12", "technique": _SIM + " (in-flight corruption of client datagrams; panic / overflow monitors)",
            "level_text": "Seeded exploration with network-driven corruption (truncate, extend, bit flip, replace, spoof) of every datagram kind against the running tracker; any tracker-thread panic or arithmetic overflow is a violation. Weakest claim: only the fault-driven part of the input space.",
            "level_note": "Not a parser fuzzer; overflow-checks = on in the harness profile."},
    "C16": {"engine": "sim", "design_ref": "6.C16", "technique": _SIM + " (whole HTTP tracker over a glommio stand-in; framing model + per-torrent linearizability of client-observed histories)",
            "level_text": "Seeded exploration of the real aquatic_http::run over the stub executor: every reply is read by an independent framing model (status line, Content-Length, complete bencode + CRLF, nothing unsolicited), must arrive within a bound, and the replies of each torrent must be explainable by one reference tracker whatever the worker counts.",
            "level_note": "Executor, channels, timers and TCP are the simulator's; connection, request, swarm-worker and watchdog code is real."},
    "C17": {"engine": "sim", "design_ref": "6.C17", "technique": _SIM + " (whole WebTorrent tracker over a glommio stand-in; routing oracle + quiescent scrape)",
            "level_text": "Seeded exploration of the real aquatic_ws::run: offers and answers carry unique SDP strings so that every delivery is attributed; each must reach exactly the connection owning the addressed peer; request/reply pairing per connection; after closes and quiescence the scrape must show exactly the peers of the open connections.",
            "level_note": "The close-overtakes-last-announce race is a recorded finding with its own signature; any other surviving entry is a violation."},
    "C18": {"engine": "sim", "design_ref": "6.C18", "technique": _SIM + " (limit knobs x worst-case accepted request)",
            "level_text": "Seeded exploration over the configuration limits with worst-case workloads: a well-formed request with a valid id that gets no reply (dropped because the reply does not fit the buffer) is a violation.",
            "level_note": "mio backend; io_uring buffers are not exercised."},
    "C19": {"engine": "sim", "design_ref": "6.C19", "technique": "seeded deterministic simulation with worker-death fault enumeration",
            "level_text": "Fault enumeration: each worker kind x death mode x time is injected into the real run(config); run must return Err within 10 simulated seconds, and must never return without a death.",
            "level_note": "Time advances only when all threads are blocked, so the bound is exact; the metrics (prometheus) worker is a simulated thread whose spawning, registration and watching by run() is real code."},
    "C05": {"engine": "sim", "design_ref": "6.C05", "technique": _SIM + " (simulated whole-second clock per worker, issue x check time grid, forgeries)",
            "level_text": "Seeded exploration of the real ConnectionValidator: several clones with independently sampled clocks, ages 0..u32::MAX, checks placed one second before / at / after expiry, wrong and IPv4-mapped addresses, four forgery kinds.",
            "level_note": "MAC guessing chance 2^-32 per forged id is handled by re-checking under a second key."},
    "C07": {"engine": "sim", "design_ref": "6.C07", "technique": _SIM + " (refinement over generated histories, stepped clock, adversarial RNG)",
            "level_text": "Seeded exploration: generated histories executed against the real aquatic_http storage and refined against the reference tracker, including scrape de-duplication / truncation and torrent-entry removal.",
            "level_note": "Trusted: reference tracker, stepped clock seam, torrent-count accessor hook."},
    "C08": {"engine": "sim", "design_ref": "6.C08", "technique": _SIM + " (WebTorrent reference model with per-connection ownership)",
            "level_text": "Seeded exploration over histories from several connections on several simulated socket workers with coinciding connection ids; every out-message is judged against the ownership model.",
            "level_note": "STORE tier mirrors the socket worker's cleanup bookkeeping; WS-SYS runs the real one."},
    "C09": {"engine": "sim", "design_ref": "6.C09", "technique": _SIM + " (offer/answer protocol model)",
            "level_text": "Seeded exploration: offers and answers (correct, duplicated, wrong peer, wrong torrent, after stop/close/expiry/ageing) judged against the offer-expectation model.",
            "level_note": "Receivers are validated, not predicted (tracker RNG)."},
    "C10": {"engine": "sim", "design_ref": "6.C10", "technique": _SIM + " (simulated clock; cleans placed at deadline-1/0/+1)",
            "level_text": "Seeded exploration with the real deadline computation under a simulated clock; cleaning passes are placed one second before, at and after stored deadlines.",
            "level_note": "Monotonic clock; uptime below u32::MAX seconds."},
    "C11": {"engine": "sim", "design_ref": "6.C11", "technique": "seeded deterministic simulation with systematic reload-fault enumeration",
            "level_text": "Fault enumeration: every reload-fault kind (missing, open denied, read error at every byte, malformed line of 6 kinds at every position, short reads) against the real reload path and the three storages' cleaning passes.",
            "level_note": "Announce gate covered by SYS harnesses; list files are real scratch files read through the seam."},
    "C20": {"engine": "sim", "design_ref": "6.C20", "technique": "seeded deterministic simulation with crash-point and I/O-fault enumeration",
            "level_text": "Fault enumeration: every export of every generated history is crashed after each file step and re-run with each I/O error kind; tallies and totals refined against the reference tracker.",
            "level_note": "Process-kill crash model; rename is the kernel's (real files in a scratch directory)."},
}
