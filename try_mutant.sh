#!/bin/bash
# try_mutant.sh <patch.diff> <prop> [<prop>...]: apply a seeded change to /repo, run the quick checks, undo.
P=$1; shift
cd /repo || exit 9
if ! git diff --quiet; then echo "repo dirty"; exit 9; fi
git apply "$P" 2>/dev/null || { git reset -q --hard HEAD; patch -p1 -F3 -s < "$P" >/dev/null 2>&1 && ! ls $(git ls-files -m | sed 's/$/.rej/') >/dev/null 2>&1; } || { echo "APPLY-FAILED $P"; git reset -q --hard HEAD; git clean -qfd crates; exit 8; }
find crates -name "*.orig" -delete 2>/dev/null
for prop in "$@"; do
  out=$(cd /verif && ./check $prop --tier ${TIER:-quick} 2>&1); rc=$?
  echo "== $prop rc=$rc"; echo "$out" | grep -E "VIOLATION|KNOWN-FINDING|HARNESS-ERROR|^\[check\] C" | head -8
  echo "$out" | grep -A2 "VIOLATION" | grep -E "^  " | head -4
done
git -C /repo reset -q --hard HEAD ; git -C /repo clean -qfd crates 2>/dev/null
git -C /repo status --short | head -3
