//! Shared harness plumbing: violations, statistics, batch reports, the harness trait and the
//! generic delta-debugging minimiser.
use serde::{de::DeserializeOwned, Deserialize, Serialize};
use std::collections::{BTreeMap, BTreeSet};

#[derive(Clone, Copy, Debug, PartialEq, Eq, Serialize, Deserialize)]
#[serde(rename_all = "lowercase")]
pub enum Tier {
    Quick,
    Thorough,
}

#[derive(Clone, Debug, Serialize, Deserialize)]
pub struct Violation {
    /// property id, e.g. "C01"
    pub prop: String,
    /// stable check id within the property, e.g. "announce-counts"
    pub check: String,
    /// finer signature used to match known findings (shape of the trigger)
    pub signature: String,
    /// human-readable expected / observed
    pub detail: String,
}

impl Violation {
    pub fn new(prop: &str, check: &str, signature: &str, detail: String) -> Self {
        Violation { prop: prop.into(), check: check.into(), signature: signature.into(), detail }
    }
}

/// Per-batch statistics, merged by the `check` driver across worker processes.
#[derive(Clone, Debug, Default, Serialize, Deserialize)]
pub struct Stats {
    pub runs: u64,
    /// oracle evaluations (operations checked against the model)
    pub evaluations: u64,
    pub sim_seconds: u64,
    pub probes: BTreeMap<String, u64>,
    pub faults_fired: BTreeMap<String, u64>,
    /// behaviour signatures of non-trivial runs (distinctness measure)
    #[serde(skip)]
    pub signatures: BTreeSet<u64>,
    #[serde(skip)]
    pub states: BTreeSet<u64>,
    pub nontrivial_runs: u64,
    pub handoffs: u64,
}

impl Stats {
    pub fn probe(&mut self, name: &str) {
        *self.probes.entry(name.to_string()).or_insert(0) += 1;
    }
    pub fn probe_n(&mut self, name: &str, n: u64) {
        if n > 0 {
            *self.probes.entry(name.to_string()).or_insert(0) += n;
        }
    }
    pub fn fault(&mut self, name: &str, n: u64) {
        if n > 0 {
            *self.faults_fired.entry(name.to_string()).or_insert(0) += n;
        }
    }
    pub fn merge(&mut self, o: &Stats) {
        self.runs += o.runs;
        self.evaluations += o.evaluations;
        self.sim_seconds += o.sim_seconds;
        self.nontrivial_runs += o.nontrivial_runs;
        self.handoffs += o.handoffs;
        for (k, v) in &o.probes {
            *self.probes.entry(k.clone()).or_insert(0) += v;
        }
        for (k, v) in &o.faults_fired {
            *self.faults_fired.entry(k.clone()).or_insert(0) += v;
        }
        self.signatures.extend(o.signatures.iter().copied());
        self.states.extend(o.states.iter().copied());
    }
}

/// What one execution of a scenario produced.
#[derive(Clone, Debug, Default)]
pub struct Outcome {
    pub violations: Vec<Violation>,
    /// determinism fingerprint of the execution (event-log hash or transcript hash)
    pub fingerprint: u64,
    /// behaviour signature (see each harness' rule); None = trivial run
    pub signature: Option<u64>,
}

#[derive(Clone, Debug, Serialize, Deserialize)]
pub struct ReportedViolation {
    pub prop: String,
    pub check: String,
    pub signature: String,
    pub detail: String,
    pub harness: String,
    pub seed: u64,
    pub run_index: u64,
    pub fingerprint: String,
    pub original_ops: usize,
    pub minimised_ops: usize,
    pub minimise_executions: u64,
    /// the minimised scenario: this is what replays
    pub scenario: serde_json::Value,
}

#[derive(Clone, Debug, Default, Serialize, Deserialize)]
pub struct BatchReport {
    pub harness: String,
    pub prop: String,
    pub seed_base: u64,
    pub first: u64,
    pub count: u64,
    pub stats: Stats,
    pub violations: Vec<ReportedViolation>,
    pub samples: Vec<serde_json::Value>,
    pub wall_s: f64,
    pub nondeterminism: Vec<String>,
    pub signature_count: u64,
    pub state_count: u64,
}

pub trait Harness {
    type Scn: Serialize + DeserializeOwned + Clone + std::fmt::Debug;
    const NAME: &'static str;
    /// maximum number of executions the minimiser may spend on one violation
    const MINIMISE_BUDGET: u64 = 3000;
    /// Build the explicit scenario for one run. `prop` selects workload bias and knobs.
    fn generate(seed: u64, tier: Tier, prop: &str) -> Self::Scn;
    /// Execute a scenario against the real code and the oracle.
    fn execute(scn: &Self::Scn, prop: &str, stats: &mut Stats) -> Outcome;
    /// Number of removable units (operations, faults, clients ...) for reporting.
    fn size(scn: &Self::Scn) -> usize;
    /// Simpler variants of the scenario, most aggressive first.
    fn shrink(scn: &Self::Scn) -> Vec<Self::Scn>;
    /// Called once on the minimised failing scenario before it is written out: a harness
    /// may embed what an exact replay needs (e.g. the failing schedule).
    fn finalize(_scn: &mut Self::Scn, _prop: &str, _target: &Violation) {}
    /// Short human-readable rendering for evidence samples.
    fn sample(scn: &Self::Scn) -> serde_json::Value {
        serde_json::to_value(scn).unwrap_or(serde_json::Value::Null)
    }
}

/// Index sets to keep when trying to drop chunks of a list of length n (ddmin style):
/// halves, quarters, ... single elements.
pub fn chunk_removals(n: usize) -> Vec<(usize, usize)> {
    let mut out = Vec::new();
    if n == 0 {
        return out;
    }
    let mut size = (n + 1) / 2;
    loop {
        let mut start = 0;
        while start < n {
            let end = (start + size).min(n);
            out.push((start, end));
            start = end;
        }
        if size == 1 {
            break;
        }
        size = (size + 1) / 2;
    }
    out
}

/// Delta-debug a failing scenario: keep a candidate only if the same check of the same
/// property still fails. Returns (minimised scenario, its violation, executions used).
pub fn minimise<H: Harness>(scn: &H::Scn, prop: &str, target: &Violation, budget: u64) -> (H::Scn, Violation, u64) {
    let mut cur = scn.clone();
    let mut cur_v = target.clone();
    let mut used = 0u64;
    let mut scratch = Stats::default();
    'outer: loop {
        let cands = H::shrink(&cur);
        for cand in cands {
            if used >= budget {
                break 'outer;
            }
            used += 1;
            let out = H::execute(&cand, prop, &mut scratch);
            if let Some(v) = out.violations.iter().find(|v| v.prop == target.prop && v.check == target.check) {
                if H::size(&cand) < H::size(&cur) || serde_json::to_string(&cand).map(|s| s.len()).unwrap_or(0) < serde_json::to_string(&cur).map(|s| s.len()).unwrap_or(0) {
                    cur = cand;
                    cur_v = v.clone();
                    continue 'outer;
                }
            }
        }
        break;
    }
    (cur, cur_v, used)
}

pub fn hash_json<T: Serialize>(t: &T) -> u64 {
    let s = serde_json::to_string(t).unwrap_or_default();
    crate::prng::hash_str(&s)
}

/// Run a batch of seeds through a harness.
pub fn run_batch<H: Harness>(prop: &str, tier: Tier, seed_base: u64, first: u64, count: u64, budget_s: f64, max_violations: usize) -> BatchReport {
    let t0 = std::time::Instant::now();
    let mut rep = BatchReport { harness: H::NAME.into(), prop: prop.into(), seed_base, first, count, ..Default::default() };
    let mut stats = Stats::default();
    let mut seen_checks: BTreeSet<(String, String, String)> = BTreeSet::new();
    let mut done = 0u64;
    for i in first..first + count {
        if budget_s > 0.0 && t0.elapsed().as_secs_f64() > budget_s {
            break;
        }
        let seed = crate::prng::mix(crate::prng::mix(seed_base, crate::prng::hash_str(H::NAME)), i);
        let scn = H::generate(seed, tier, prop);
        let out = H::execute(&scn, prop, &mut stats);
        stats.runs += 1;
        done += 1;
        if std::env::var_os("VERIF_PRINT_FP").is_some() {
            println!("FP {} {} {:016x} {}", H::NAME, i, out.fingerprint, out.violations.len());
        }
        if let Some(sig) = out.signature {
            stats.nontrivial_runs += 1;
            stats.signatures.insert(sig);
        }
        if rep.samples.len() < 3 && (out.signature.is_some() || i == first) {
            rep.samples.push(serde_json::json!({"seed": seed, "run_index": i, "scenario": H::sample(&scn)}));
        }
        // determinism self-check on 1% of the runs (and on every failing run)
        let recheck = i % 100 == 0 || !out.violations.is_empty();
        if recheck {
            let mut scratch = Stats::default();
            let again = H::execute(&scn, prop, &mut scratch);
            if again.fingerprint != out.fingerprint {
                rep.nondeterminism.push(format!("seed {} run {}: fingerprint {:016x} vs {:016x}", seed, i, out.fingerprint, again.fingerprint));
            }
        }
        for v in out.violations.iter().filter(|v| v.prop == prop) {
            let key = (v.prop.clone(), v.check.clone(), v.signature.clone());
            if seen_checks.contains(&key) || rep.violations.len() >= max_violations {
                continue;
            }
            seen_checks.insert(key);
            let (mut min_scn, min_v, used) = minimise::<H>(&scn, prop, v, H::MINIMISE_BUDGET);
            H::finalize(&mut min_scn, prop, &min_v);
            // fingerprint of the minimised scenario
            let mut scratch = Stats::default();
            let fin = H::execute(&min_scn, prop, &mut scratch);
            rep.violations.push(ReportedViolation {
                prop: min_v.prop.clone(),
                check: min_v.check.clone(),
                signature: min_v.signature.clone(),
                detail: min_v.detail.clone(),
                harness: H::NAME.into(),
                seed,
                run_index: i,
                fingerprint: format!("{:016x}", fin.fingerprint),
                original_ops: H::size(&scn),
                minimised_ops: H::size(&min_scn),
                minimise_executions: used,
                scenario: serde_json::to_value(&min_scn).unwrap(),
            });
        }
    }
    rep.count = done;
    rep.signature_count = stats.signatures.len() as u64;
    rep.state_count = stats.states.len() as u64;
    rep.stats = stats;
    rep.wall_s = t0.elapsed().as_secs_f64();
    rep
}

/// Replay one scenario (from a replay file) and report its violations.
pub fn replay<H: Harness>(prop: &str, scenario: &serde_json::Value) -> anyhow::Result<Outcome> {
    let scn: H::Scn = serde_json::from_value(scenario.clone())?;
    let mut stats = Stats::default();
    Ok(H::execute(&scn, prop, &mut stats))
}

thread_local! {
    static QUIET_DEPTH: std::cell::Cell<u32> = const { std::cell::Cell::new(0) };
    static LAST_PANIC_LOC: std::cell::RefCell<String> = const { std::cell::RefCell::new(String::new()) };
}

/// Install a panic hook that stays silent for panics caught by `catch` (they are oracle
/// input, not harness failures) and for the engine's teardown payload.
pub fn install_quiet_panic_hook() {
    let prev = std::panic::take_hook();
    std::panic::set_hook(Box::new(move |info| {
        if info.payload().is::<aquatic_verif_rt::engine::Shutdown>() || info.payload().is::<aquatic_verif_rt::fs::Crash>() {
            return;
        }
        let loc = info.location().map(|l| format!("{}:{}", l.file(), l.line())).unwrap_or_default();
        LAST_PANIC_LOC.with(|l| *l.borrow_mut() = loc);
        if QUIET_DEPTH.with(|d| d.get()) > 0 && std::env::var_os("VERIF_SHOW_PANICS").is_none() {
            return;
        }
        prev(info);
    }));
}

/// Run `f`, turning a panic into Err(message @ location) without printing.
pub fn catch<R>(f: impl FnOnce() -> R) -> Result<R, String> {
    QUIET_DEPTH.with(|d| d.set(d.get() + 1));
    let r = std::panic::catch_unwind(std::panic::AssertUnwindSafe(f));
    QUIET_DEPTH.with(|d| d.set(d.get() - 1));
    r.map_err(|e| {
        let msg = if let Some(s) = e.downcast_ref::<&'static str>() {
            s.to_string()
        } else if let Some(s) = e.downcast_ref::<String>() {
            s.clone()
        } else if e.is::<aquatic_verif_rt::fs::Crash>() {
            "<crash point>".to_string()
        } else {
            "<non-string panic payload>".to_string()
        };
        let loc = LAST_PANIC_LOC.with(|l| l.borrow().clone());
        format!("{} @ {}", msg, loc)
    })
}
