//! PARSERS: the network's share of C12 replayed directly at the parsing entry points. Valid
//! messages of every kind (built with the repo's own serialisers) are damaged the way the
//! simulated network damages messages in flight — truncation at every offset, extension, bit
//! flips, replacement — and handed to the server-side parsers and to the *client-side* parsers
//! of the bundled protocol libraries (`Response::parse_bytes`, `OutMessage::from_ws_message`),
//! under `catch` (a panic is a violation) and the counting allocator (more than
//! 64 x input + 1 MiB allocated while parsing is a violation).
//! This is sampled, fault-shaped input only: not a substitute for coverage-guided fuzzing.
use crate::core::*;
use crate::prng::Prng;
use aquatic_verif_rt::alloc;
use serde::{Deserialize, Serialize};
use std::num::NonZeroU16;

#[derive(Clone, Debug, Serialize, Deserialize)]
pub struct Scn {
    /// which message family: 0 udp request, 1 udp response, 2 http request path, 3 http response,
    /// 4 ws in-message, 5 ws out-message
    pub family: u8,
    pub kind: u8,
    pub n: u16,
    /// damage: 0 truncate at `a`, 1 extend by `a` bytes, 2 flip bit `a`, 3 flip bits `a` and `b`,
    /// 4 replace by `a` random bytes, 5 none, 6 all truncations (systematic), 7 a slice of up to 48 bytes starting at `a`
    /// is repeated in place (identifiers, lists and numbers grow), 8 such a slice is cut out
    pub damage: u8,
    pub a: u32,
    pub b: u32,
    pub r: u64,
}

pub struct Parsers;

fn build(scn: &Scn) -> Vec<u8> {
    let n = scn.n as usize;
    let mut out = Vec::new();
    match scn.family % 6 {
        0 => {
            use aquatic_udp_protocol::*;
            let req = match scn.kind % 3 {
                0 => Request::Connect(ConnectRequest { transaction_id: TransactionId::new(scn.r as i32) }),
                1 => Request::Announce(AnnounceRequest {
                    connection_id: ConnectionId::new(scn.r as i64),
                    action_placeholder: Default::default(),
                    transaction_id: TransactionId::new(7),
                    info_hash: InfoHash([3; 20]),
                    peer_id: PeerId([4; 20]),
                    bytes_downloaded: NumberOfBytes::new(i64::MIN),
                    bytes_left: NumberOfBytes::new(-1),
                    bytes_uploaded: NumberOfBytes::new(i64::MAX),
                    event: [AnnounceEvent::None, AnnounceEvent::Started, AnnounceEvent::Stopped, AnnounceEvent::Completed][(scn.r % 4) as usize],
                    ip_address: Ipv4AddrBytes([1, 2, 3, 4]),
                    key: PeerKey::new(-1),
                    peers_wanted: NumberOfPeers::new(i32::MIN),
                    port: Port::new(NonZeroU16::new(1).unwrap()),
                }),
                _ => Request::Scrape(ScrapeRequest { connection_id: ConnectionId::new(1), transaction_id: TransactionId::new(2), info_hashes: (0..n.min(300)).map(|i| InfoHash([i as u8; 20])).collect() }),
            };
            let _ = req.write_bytes(&mut out);
        }
        1 => {
            use aquatic_udp_protocol::*;
            let fixed = AnnounceResponseFixedData { transaction_id: TransactionId::new(1), announce_interval: AnnounceInterval::new(1), leechers: NumberOfPeers::new(i32::MAX), seeders: NumberOfPeers::new(-1) };
            let resp = match scn.kind % 5 {
                0 => Response::Connect(ConnectResponse { transaction_id: TransactionId::new(1), connection_id: ConnectionId::new(scn.r as i64) }),
                1 => Response::AnnounceIpv4(AnnounceResponse { fixed, peers: (0..n.min(1200)).map(|i| ResponsePeer { ip_address: Ipv4AddrBytes([i as u8; 4]), port: Port::new(NonZeroU16::new(1 + i as u16).unwrap()) }).collect() }),
                2 => Response::AnnounceIpv6(AnnounceResponse { fixed, peers: (0..n.min(450)).map(|i| ResponsePeer { ip_address: Ipv6AddrBytes([i as u8; 16]), port: Port::new(NonZeroU16::new(1 + i as u16).unwrap()) }).collect() }),
                3 => Response::Scrape(ScrapeResponse { transaction_id: TransactionId::new(1), torrent_stats: (0..n.min(300)).map(|i| TorrentScrapeStatistics { seeders: NumberOfPeers::new(i as i32), completed: NumberOfDownloads::new(0), leechers: NumberOfPeers::new(-(i as i32)) }).collect() }),
                _ => Response::Error(ErrorResponse { transaction_id: TransactionId::new(1), message: "x".repeat(n.min(2000)).into() }),
            };
            let _ = resp.write_bytes(&mut out);
        }
        2 => {
            let ih: String = (0..20).map(|i| format!("%{:02x}", (scn.r as u8).wrapping_add(i))).collect();
            let s = match scn.kind % 3 {
                0 => format!("/announce?info_hash={}&peer_id={}&port={}&uploaded=0&downloaded=0&left={}&numwant={}&event=started&compact=1&key=abc", ih, ih, scn.n, scn.r, scn.a),
                1 => format!("/scrape?{}", (0..n.min(80)).map(|_| format!("info_hash={}", ih)).collect::<Vec<_>>().join("&")),
                _ => format!("/announce?left=-1&port=99999&info_hash={}&numwant=18446744073709551616&peer_id={}&event=paused", ih, ih),
            };
            out = s.into_bytes();
        }
        3 => {
            use aquatic_http_protocol::response::*;
            use std::net::{Ipv4Addr, Ipv6Addr};
            let resp = match scn.kind % 3 {
                0 => Response::Announce(AnnounceResponse {
                    announce_interval: 1,
                    complete: usize::MAX,
                    incomplete: 0,
                    peers: ResponsePeerListV4((0..n.min(600)).map(|i| ResponsePeer { ip_address: Ipv4Addr::new(i as u8, 0, 0, 1), port: i as u16 }).collect()),
                    peers6: ResponsePeerListV6((0..(n / 2).min(200)).map(|i| ResponsePeer { ip_address: Ipv6Addr::new(i as u16, 0, 0, 0, 0, 0, 0, 1), port: i as u16 }).collect()),
                    warning_message: if scn.r % 2 == 0 { Some("w".repeat(n.min(300))) } else { None },
                }),
                1 => Response::Scrape(ScrapeResponse { files: (0..n.min(100)).map(|i| (aquatic_http_protocol::common::InfoHash([i as u8; 20]), ScrapeStatistics { complete: i, incomplete: usize::MAX, downloaded: 0 })).collect() }),
                _ => Response::Failure(FailureResponse::new("f".repeat(n.min(500)))),
            };
            let _ = resp.write_bytes(&mut out);
        }
        4 => {
            let id: String = (0..20).map(|i| char::from_u32(0x20 + ((scn.r as u32 >> (i % 16)) & 0xdf)).unwrap_or('a')).collect();
            let v = match scn.kind % 3 {
                0 => serde_json::json!({"action": "announce", "info_hash": id, "peer_id": id, "left": scn.a, "event": "started", "numwant": scn.n,
                    "offers": (0..n.min(40)).map(|i| serde_json::json!({"offer": {"type": "offer", "sdp": format!("sdp {} \"q\" \\ \u{1F600}", i)}, "offer_id": id})).collect::<Vec<_>>()}),
                1 => serde_json::json!({"action": "announce", "info_hash": id, "peer_id": id, "answer": {"type": "answer", "sdp": "a"}, "to_peer_id": id, "offer_id": id}),
                _ => serde_json::json!({"action": "scrape", "info_hash": (0..n.min(300)).map(|_| id.clone()).collect::<Vec<_>>()}),
            };
            out = v.to_string().into_bytes();
        }
        _ => {
            let id: String = "abcdefghijklmnopqrst".into();
            let v = match scn.kind % 4 {
                0 => serde_json::json!({"action": "announce", "info_hash": id, "complete": scn.a, "incomplete": scn.b, "interval": 120}),
                1 => serde_json::json!({"action": "scrape", "files": (0..n.min(100)).map(|i| (format!("{:020}", i), serde_json::json!({"complete": i, "incomplete": 0, "downloaded": 0}))).collect::<serde_json::Map<_, _>>()}),
                2 => serde_json::json!({"action": "announce", "info_hash": id, "peer_id": id, "offer": {"type": "offer", "sdp": "s".repeat(n.min(3000))}, "offer_id": id}),
                _ => serde_json::json!({"failure reason": "r".repeat(n.min(500)), "action": "announce", "info_hash": id}),
            };
            out = v.to_string().into_bytes();
        }
    }
    out
}

fn damage(base: &[u8], scn: &Scn, variant: usize) -> Vec<u8> {
    let mut b = base.to_vec();
    let mut st = scn.r ^ 0xABCD;
    match scn.damage % 9 {
        7 | 8 if b.len() > 2 => {
            let start = scn.a as usize % (b.len() - 1);
            let len = (1 + scn.b as usize % 48).min(b.len() - start);
            if scn.damage % 9 == 7 {
                let slice: Vec<u8> = b[start..start + len].to_vec();
                let reps = 1 + (scn.r % 3) as usize;
                for _ in 0..reps {
                    b.splice(start + len..start + len, slice.iter().copied());
                }
            } else {
                b.drain(start..start + len);
            }
        }
        7 | 8 => {}
        0 => b.truncate(scn.a as usize % (b.len() + 1)),
        1 => {
            for _ in 0..(scn.a % 200) {
                b.push((crate::prng::splitmix(&mut st) & 0xff) as u8);
            }
        }
        2 => {
            if !b.is_empty() {
                let bit = scn.a as usize % (b.len() * 8);
                b[bit / 8] ^= 1 << (bit % 8);
            }
        }
        3 => {
            if !b.is_empty() {
                for x in [scn.a, scn.b] {
                    let bit = x as usize % (b.len() * 8);
                    b[bit / 8] ^= 1 << (bit % 8);
                }
            }
        }
        4 => b = (0..(scn.a % 3000)).map(|_| (crate::prng::splitmix(&mut st) & 0xff) as u8).collect(),
        5 => {}
        _ => b.truncate(variant.min(b.len())),
    }
    b
}

fn parse_one(family: u8, bytes: &[u8], variant: u8) -> Result<(), String> {
    match family % 6 {
        0 => catch(|| {
            let _ = aquatic_udp_protocol::Request::parse_bytes(bytes, [1u8, 70, 255][variant as usize % 3]);
        }),
        1 => catch(|| {
            let _ = aquatic_udp_protocol::Response::parse_bytes(bytes, variant % 2 == 0);
        }),
        2 => catch(|| {
            if let Ok(s) = std::str::from_utf8(bytes) {
                let _ = aquatic_http_protocol::request::Request::parse_http_get_path(s);
            }
            let mut full = b"GET ".to_vec();
            full.extend_from_slice(bytes);
            full.extend_from_slice(b" HTTP/1.1\r\nHost: x\r\n\r\n");
            let _ = aquatic_http_protocol::request::Request::parse_bytes(&full);
        }),
        3 => catch(|| {
            let _ = aquatic_http_protocol::response::Response::parse_bytes(bytes);
        }),
        4 => catch(|| {
            let m = if variant % 2 == 0 { tungstenite::Message::binary(bytes.to_vec()) } else { tungstenite::Message::text(String::from_utf8_lossy(bytes).to_string()) };
            let _ = aquatic_ws_protocol::incoming::InMessage::from_ws_message(m);
        }),
        _ => catch(|| {
            let m = if variant % 2 == 0 { tungstenite::Message::binary(bytes.to_vec()) } else { tungstenite::Message::text(String::from_utf8_lossy(bytes).to_string()) };
            let _ = aquatic_ws_protocol::outgoing::OutMessage::from_ws_message(m);
        }),
    }
}

impl Harness for Parsers {
    type Scn = Scn;
    const NAME: &'static str = "parsers";

    fn generate(seed: u64, _tier: Tier, _prop: &str) -> Scn {
        let mut r = Prng::stream(seed, "scenario");
        Scn { family: r.below(6) as u8, kind: r.below(6) as u8, n: *r.pick(&[0u16, 1, 2, 3, 10, 70, 255, 300, 1000, 3000]), damage: r.below(9) as u8, a: r.next_u64() as u32, b: r.next_u64() as u32, r: r.next_u64() }
    }

    fn execute(scn: &Scn, _prop: &str, stats: &mut Stats) -> Outcome {
        let base = build(scn);
        let mut violations = Vec::new();
        let mut fp = 0u64;
        let variants: Vec<usize> = if scn.damage % 9 == 6 { (0..=base.len().min(700)).collect() } else { vec![0] };
        for v in variants {
            let bytes = damage(&base, scn, v);
            for pv in 0..2u8 {
                alloc::reset_thread();
                let r = parse_one(scn.family, &bytes, pv);
                let used = alloc::thread_bytes();
                stats.evaluations += 1;
                fp = (fp ^ (r.is_ok() as u64) ^ (bytes.len() as u64) << 8).wrapping_mul(0x100000001b3);
                if let Err(m) = r {
                    let fam = ["udp-request", "udp-response", "http-request", "http-response", "ws-in-message", "ws-out-message"][scn.family as usize % 6];
                    violations.push(Violation::new("C12", "parser-no-panic", &format!("{}-parser-panic", fam), format!("{} parser panicked on a {}-byte input (damage {}, first bytes {:?}): {}", fam, bytes.len(), scn.damage % 9, &bytes[..bytes.len().min(40)], m)));
                    return Outcome { violations, fingerprint: fp, signature: None };
                }
                // the harness' own copy of the input (text conversion) is included in `used`: allow for it
                if used > alloc::MULTIPLE * bytes.len() as u64 + alloc::SLACK {
                    violations.push(Violation::new("C12", "parser-allocation-bound", "parser-allocation", format!("parsing a {}-byte input allocated {} bytes (> 64 x input + 1 MiB)", bytes.len(), used)));
                    return Outcome { violations, fingerprint: fp, signature: None };
                }
                if bytes.len() > 100 {
                    stats.probe_n("max-allocation-ratio-x100-sampled", if used * 100 / bytes.len() as u64 > 2000 { 1 } else { 0 });
                }
            }
        }
        let sig = (scn.family as u64) << 56 ^ (scn.kind as u64) << 48 ^ (scn.damage as u64) << 40 ^ base.len() as u64;
        Outcome { violations, fingerprint: fp, signature: Some(sig) }
    }

    fn size(scn: &Scn) -> usize {
        scn.n as usize + 1
    }

    fn shrink(scn: &Scn) -> Vec<Scn> {
        let mut out = Vec::new();
        for n in [0u16, 1, scn.n / 2] {
            if n < scn.n {
                let mut s = scn.clone();
                s.n = n;
                out.push(s);
            }
        }
        out
    }
}
