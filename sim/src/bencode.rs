//! Independent, strict bencode reader for the simulated HTTP clients (not the repo's codec).
use std::collections::BTreeMap;

#[derive(Clone, Debug, PartialEq)]
pub enum B {
    Int(i64),
    Bytes(Vec<u8>),
    List(Vec<B>),
    Dict(BTreeMap<Vec<u8>, B>),
}

impl B {
    pub fn get(&self, k: &str) -> Option<&B> {
        match self {
            B::Dict(d) => d.get(k.as_bytes()),
            _ => None,
        }
    }
    pub fn int(&self) -> Option<i64> {
        match self {
            B::Int(i) => Some(*i),
            _ => None,
        }
    }
    pub fn bytes(&self) -> Option<&[u8]> {
        match self {
            B::Bytes(b) => Some(b),
            _ => None,
        }
    }
}

/// Parse one value at the start of `b`. Returns (value, bytes consumed).
/// Rejects unsorted or duplicate dictionary keys and non-canonical integers.
pub fn parse(b: &[u8]) -> Result<(B, usize), String> {
    parse_at(b, 0, 0)
}

fn parse_at(b: &[u8], mut i: usize, depth: usize) -> Result<(B, usize), String> {
    if depth > 64 {
        return Err("nesting too deep".into());
    }
    match b.get(i) {
        None => Err("unexpected end".into()),
        Some(b'i') => {
            let end = b[i..].iter().position(|c| *c == b'e').ok_or("unterminated integer")? + i;
            let s = std::str::from_utf8(&b[i + 1..end]).map_err(|_| "bad integer")?;
            if s.is_empty() || (s.len() > 1 && s.starts_with('0')) || s.starts_with("-0") || s.starts_with('+') {
                return Err(format!("non-canonical integer {:?}", s));
            }
            let v: i64 = s.parse().map_err(|_| format!("bad integer {:?}", s))?;
            Ok((B::Int(v), end + 1))
        }
        Some(b'l') => {
            i += 1;
            let mut v = Vec::new();
            loop {
                match b.get(i) {
                    None => return Err("unterminated list".into()),
                    Some(b'e') => return Ok((B::List(v), i + 1)),
                    _ => {
                        let (x, n) = parse_at(b, i, depth + 1)?;
                        v.push(x);
                        i = n;
                    }
                }
            }
        }
        Some(b'd') => {
            i += 1;
            let mut d = BTreeMap::new();
            let mut last: Option<Vec<u8>> = None;
            loop {
                match b.get(i) {
                    None => return Err("unterminated dictionary".into()),
                    Some(b'e') => return Ok((B::Dict(d), i + 1)),
                    _ => {
                        let (k, n) = parse_at(b, i, depth + 1)?;
                        let k = match k {
                            B::Bytes(k) => k,
                            _ => return Err("dictionary key is not a string".into()),
                        };
                        if let Some(l) = &last {
                            if *l >= k {
                                return Err("dictionary keys not sorted / duplicated".into());
                            }
                        }
                        last = Some(k.clone());
                        let (v, n2) = parse_at(b, n, depth + 1)?;
                        d.insert(k, v);
                        i = n2;
                    }
                }
            }
        }
        Some(c) if c.is_ascii_digit() => {
            let colon = b[i..].iter().position(|c| *c == b':').ok_or("string without colon")? + i;
            let s = std::str::from_utf8(&b[i..colon]).map_err(|_| "bad string length")?;
            if s.len() > 1 && s.starts_with('0') {
                return Err("non-canonical string length".into());
            }
            let n: usize = s.parse().map_err(|_| "bad string length")?;
            let end = colon + 1 + n;
            if end > b.len() {
                return Err("string runs past the end".into());
            }
            Ok((B::Bytes(b[colon + 1..end].to_vec()), end))
        }
        Some(c) => Err(format!("unexpected byte {:#x}", c)),
    }
}
