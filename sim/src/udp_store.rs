//! UDP-STORE: `aquatic_udp::swarm::TorrentMaps` (announce / scrape / clean_and_update_statistics)
//! driven from one thread under the stepped simulated clock, refined operation by operation
//! against `RefTracker`. Real `ValidUntil::new` / `seconds_elapsed` compute every deadline.
//! Decides (quick tier): C01, C02 (UDP part), C10 (UDP part), C20 (tallies, totals).
use crate::core::*;
use crate::model::*;
use crate::prng::Prng;
use aquatic_common::access_list::{AccessList, AccessListArcSwap, AccessListMode};
use aquatic_common::{CanonicalSocketAddr, ServerStartInstant, ValidUntil};
use aquatic_udp::common::{CachePaddedArc, IpVersionStatistics, StatisticsMessage, SwarmWorkerStatistics};
use aquatic_udp::config::Config;
use aquatic_udp::swarm::TorrentMaps;
use aquatic_udp_protocol::*;
use aquatic_verif_rt::time;
use rand::rngs::SmallRng;
use rand::SeedableRng;
use serde::{Deserialize, Serialize};
use std::collections::BTreeMap;
use std::net::{IpAddr, Ipv4Addr, Ipv6Addr, SocketAddr};
use std::num::NonZeroU16;
use std::sync::atomic::Ordering;
use std::sync::Arc;

#[derive(Clone, Debug, Serialize, Deserialize, PartialEq)]
pub enum Op {
    /// announce from host `h` (family by `v6`) with announced `port`
    /// `ac` refines an IPv6 source: 0 = 2001:db8::/32, 1 = low address in ::/96 (not mapped),
    /// 2 = IPv4-mapped ::ffff:10.0.x.y (the same host as plain IPv4 host `h`)
    Ann { t: u8, v6: bool, #[serde(default)] ac: u8, h: u16, port: u16, ev: u8, left: i64, want: i32, pid: u8 },
    Scr { v6: bool, #[serde(default)] ac: u8, ts: Vec<u8> },
    Clean,
    /// advance the clock by whole seconds
    Adv { secs: u64 },
    /// a successful access-list reload: the list in force becomes `list` (torrent indices)
    SetList { list: Vec<u8> },
}

#[derive(Clone, Debug, Serialize, Deserialize)]
pub struct Scn {
    pub max_response_peers: usize,
    pub max_peer_age: u32,
    pub peer_clients: bool,
    pub rng_seed: u64,
    /// 0 off, 1 allow, 2 deny
    pub access_mode: u8,
    pub access_list: Vec<u8>,
    pub ops: Vec<Op>,
}

pub fn info_hash(t: u8) -> [u8; 20] {
    let mut h = [7u8; 20];
    // torrents 0,3,6 share shard 0; 1,4,7 shard 1; 2,5 shard 2 (shard = first byte % 16)
    h[0] = t % 3;
    h[1] = t;
    h[19] = t.wrapping_mul(31);
    h
}

pub fn host_ip(v6: bool, h: u16) -> IpAddr {
    src_ip(v6, 0, h)
}

/// Network-level source address of host `h` (before any canonicalisation).
pub fn src_ip(v6: bool, ac: u8, h: u16) -> IpAddr {
    if !v6 {
        return IpAddr::V4(Ipv4Addr::new(10, 0, (h >> 8) as u8, (h & 255) as u8));
    }
    match ac % 3 {
        0 => IpAddr::V6(Ipv6Addr::new(0x2001, 0xdb8, 0, 0, 0, 0, 1, h)),
        1 => IpAddr::V6(Ipv6Addr::new(0, 0, 0, 0, 0, 0, 0x0a00, h.wrapping_add(1))),
        _ => IpAddr::V6(Ipv6Addr::new(0, 0, 0, 0, 0, 0xffff, 0x0a00, h)),
    }
}

/// Independent canonicalisation: only ::ffff:a.b.c.d is the embedded IPv4 address.
pub fn canon_ip(ip: IpAddr) -> IpAddr {
    if let IpAddr::V6(a) = ip {
        let o = a.octets();
        if o[..10].iter().all(|b| *b == 0) && o[10] == 0xff && o[11] == 0xff {
            return IpAddr::V4(Ipv4Addr::new(o[12], o[13], o[14], o[15]));
        }
    }
    ip
}

pub fn peer_id(p: u8) -> [u8; 20] {
    if p >= 200 {
        // odd and boundary-shaped peer ids (client detection must cope with all of them)
        let odd: [&[u8]; 14] = [
            b"M123456-", b"M12345--", b"M1-2-3--", b"M1-23-4-", b"M-------", b"-TR", b"-\xff\xff3000-", b"S58B-----", b"-UT355W-",
            b"Q1-10-0-", b"exbc\x00\x01", b"-qB4.5.0-", b"--------", b"M999999-",
        ];
        let mut id = match p {
            254 => [0u8; 20],
            255 => [0xffu8; 20],
            _ => [b'x'; 20],
        };
        if p < 254 {
            let o = odd[(p - 200) as usize % odd.len()];
            id[..o.len()].copy_from_slice(o);
            id[19] = p;
        }
        return id;
    }
    let prefixes: [&[u8; 8]; 4] = [b"-TR3000-", b"-qB4250-", b"-UT3550-", b"-DE2110-"];
    let mut id = [b'0'; 20];
    id[..8].copy_from_slice(prefixes[(p % 4) as usize]);
    id[8] = b'a' + (p / 4) % 26;
    id[19] = p;
    id
}

fn event_of(ev: u8) -> AnnounceEvent {
    match ev % 4 {
        0 => AnnounceEvent::None,
        1 => AnnounceEvent::Started,
        2 => AnnounceEvent::Completed,
        _ => AnnounceEvent::Stopped,
    }
}

pub struct UdpStore;

impl UdpStore {
    fn gen_ops(r: &mut Prng, prop: &str, tier: Tier, max_age: u32, max_resp: usize) -> Vec<Op> {
        let n_ops = match tier {
            Tier::Quick => r.range(20, 120),
            Tier::Thorough => r.range(20, 400),
        } as usize;
        let n_torrents = r.range(1, 8) as u8;
        let n_hosts = r.range(2, 12) as u16;
        let ports: Vec<u16> = (0..r.range(1, 4)).map(|i| 1000 + i as u16).collect();
        let n_pids = r.range(1, 10) as u8;
        let mut ops = Vec::new();
        // light generator-side clock and deadline list, to place cleans at deadline-1/0/+1
        let mut now: u64 = 0;
        let mut deadlines: Vec<u64> = Vec::new();
        // occasional bulk prefix building a big swarm
        if r.chance(if prop == "C02" { 300 } else { 60 }) {
            let size = if r.chance(300) { r.range(60, 700) } else { r.range(3, 70) } as u16;
            let t = r.below(n_torrents as u64) as u8;
            let v6 = r.chance(500);
            for h in 0..size {
                ops.push(Op::Ann { t, v6, ac: 0, h: 100 + h, port: 2000, ev: 1, left: if r.chance(300) { 0 } else { 5 }, want: 0, pid: (h % 200) as u8 });
            }
            deadlines.push(now + max_age as u64);
        }
        let stop_w = if prop == "C20" { 250 } else { 200 };
        while ops.len() < n_ops {
            if r.chance(25) {
                ops.push(Op::SetList { list: (0..r.below(5)).map(|_| r.below(8) as u8).collect() });
                continue;
            }
            let k = r.weighted(&[62, 12, 10, 16]);
            match k {
                0 => {
                    let ev = if r.chance(stop_w) { 3 } else { r.below(3) as u8 };
                    let left = match r.below(10) {
                        0..=3 => 0,
                        4 => -1,
                        5 => i64::MAX,
                        _ => r.range(1, 1000) as i64,
                    };
                    let want = match r.below(12) {
                        0 => i32::MIN,
                        1 => -1,
                        2 => 0,
                        3 => 1,
                        4 => 2,
                        5 => 3,
                        6 => i32::MAX,
                        7 => max_resp as i32,
                        8 => max_resp as i32 + 1,
                        9 => (max_resp as i32 - 1).max(0),
                        _ => r.range(1, 20) as i32,
                    };
                    ops.push(Op::Ann {
                        t: r.below(n_torrents as u64) as u8,
                        v6: r.chance(400),
                        ac: if r.chance(700) { 0 } else { r.range(1, 2) as u8 },
                        h: r.below(n_hosts as u64) as u16,
                        port: *r.pick(&ports),
                        ev,
                        left,
                        want,
                        pid: r.below(n_pids as u64) as u8,
                    });
                    if ev != 3 {
                        deadlines.push(now.saturating_add(max_age as u64));
                    }
                }
                1 => {
                    let n = r.range(0, 6) as usize;
                    let ts = (0..n).map(|_| r.below(n_torrents as u64 + 2) as u8).collect();
                    ops.push(Op::Scr { v6: r.chance(400), ac: if r.chance(700) { 0 } else { r.range(1, 2) as u8 }, ts });
                }
                2 => ops.push(Op::Clean),
                _ => {
                    // advance: half of the time aim at a stored deadline -1 / 0 / +1, then clean
                    deadlines.retain(|d| *d + 1 > now);
                    if !deadlines.is_empty() && r.chance(600) {
                        let d = *r.pick(&deadlines);
                        let target = match r.below(3) {
                            0 => d.saturating_sub(1),
                            1 => d,
                            _ => d + 1,
                        };
                        if target > now {
                            ops.push(Op::Adv { secs: target - now });
                            now = target;
                        }
                        ops.push(Op::Clean);
                    } else {
                        let secs = match r.below(4) {
                            0 => 1,
                            1 => r.range(1, 5),
                            2 => r.range(1, (max_age as u64).clamp(2, 4000)),
                            _ => r.range(1, 60),
                        };
                        ops.push(Op::Adv { secs });
                        now += secs;
                    }
                }
            }
        }
        ops
    }
}

struct Exec<'a> {
    scn: &'a Scn,
    prop: &'a str,
    config: Config,
    maps: TorrentMaps,
    start: ServerStartInstant,
    stats_shared: CachePaddedArc<IpVersionStatistics<SwarmWorkerStatistics>>,
    tx: crossbeam_channel::Sender<StatisticsMessage>,
    rx: crossbeam_channel::Receiver<StatisticsMessage>,
    access: Arc<AccessListArcSwap>,
    rng: SmallRng,
    model: RefTracker,
    tally: BTreeMap<[u8; 20], i64>,
    violations: Vec<Violation>,
    transcript: u64,
    sig: u64,
    saw_removal: bool,
    saw_nonempty_announce: bool,
    txid: i32,
    list: Vec<u8>,
}

fn fold(h: &mut u64, x: u64) {
    *h = (*h ^ x).wrapping_mul(0x100000001b3).rotate_left(9);
}

impl<'a> Exec<'a> {
    fn now_secs(&self) -> u64 {
        time::manual_ns() / 1_000_000_000
    }

    fn allowed(&self, ih: &[u8; 20]) -> bool {
        let listed = self.list.iter().any(|t| info_hash(*t) == *ih);
        match self.scn.access_mode {
            1 => listed,
            2 => !listed,
            _ => true,
        }
    }

    fn fail(&mut self, props: &[&str], check: &str, signature: &str, detail: String) {
        for p in props {
            self.violations.push(Violation::new(p, check, signature, detail.clone()));
        }
    }

    fn drain_stats(&mut self) {
        while let Ok(m) = self.rx.try_recv() {
            match m {
                StatisticsMessage::PeerAdded(id) => *self.tally.entry(id.0).or_insert(0) += 1,
                StatisticsMessage::PeerRemoved(id) => *self.tally.entry(id.0).or_insert(0) -= 1,
                _ => {}
            }
        }
    }

    fn check_tally(&mut self, at: &str) {
        if !self.scn.peer_clients {
            return;
        }
        let ids: Vec<[u8; 20]> = self.tally.keys().copied().collect();
        for id in ids {
            let t = self.tally[&id];
            let stored = self.model.peers_with_id(&id) as i64;
            if t != stored {
                let sig = if t > stored { "tally-too-high" } else { "tally-too-low" };
                self.fail(
                    &["C20"],
                    "client-tally",
                    sig,
                    format!("{}: peer id {:?}: PeerAdded-PeerRemoved = {} but {} stored peers carry it", at, String::from_utf8_lossy(&id), t, stored),
                );
                return;
            }
        }
        // ids the tracker never reported but that are stored
        let mut stored_ids: BTreeMap<[u8; 20], i64> = BTreeMap::new();
        for l in self.model.torrents.values() {
            for (_, e) in l {
                *stored_ids.entry(e.peer_id).or_insert(0) += 1;
            }
        }
        for (id, n) in stored_ids {
            if *self.tally.get(&id).unwrap_or(&0) != n {
                self.fail(
                    &["C20"],
                    "client-tally",
                    "tally-too-low",
                    format!("{}: peer id {:?}: {} stored peers carry it but the tally is {}", at, String::from_utf8_lossy(&id), n, self.tally.get(&id).unwrap_or(&0)),
                );
                return;
            }
        }
    }

    #[allow(clippy::too_many_arguments)]
    fn do_announce(&mut self, t: u8, v6: bool, ac: u8, h: u16, port: u16, ev: u8, left: i64, want: i32, pid: u8, stats: &mut Stats, probe: bool) {
        let ih = info_hash(t);
        let raw_ip = src_ip(v6, ac, h);
        let ip = canon_ip(raw_ip);
        let v6 = ip.is_ipv6();
        let fam = if v6 { Fam::V6 } else { Fam::V4 };
        let key: Key = (ip, port);
        if raw_ip != ip {
            stats.probe("ipv4-mapped-source");
        } else if matches!(raw_ip, IpAddr::V6(a) if a.octets()[..12].iter().all(|b| *b == 0)) {
            stats.probe("low-ipv6-source");
        }
        let event = event_of(ev);
        let stopped = event == AnnounceEvent::Stopped;
        let seeder = left == 0;
        let now = self.now_secs();
        let deadline = now + self.scn.max_peer_age as u64;
        self.txid = self.txid.wrapping_add(1);
        let req = AnnounceRequest {
            connection_id: ConnectionId::new(0),
            action_placeholder: Default::default(),
            transaction_id: TransactionId::new(self.txid),
            info_hash: InfoHash(ih),
            peer_id: PeerId(peer_id(pid)),
            bytes_downloaded: NumberOfBytes::new(0),
            bytes_left: NumberOfBytes::new(left),
            bytes_uploaded: NumberOfBytes::new(0),
            event,
            // in-request address field: always some other host's address (must be ignored)
            ip_address: Ipv4AddrBytes([10, 0, 0, (h as u8).wrapping_add(1)]),
            key: PeerKey::new(1),
            peers_wanted: NumberOfPeers::new(want),
            port: Port::new(NonZeroU16::new(port).unwrap()),
        };
        let src = CanonicalSocketAddr::new(SocketAddr::new(raw_ip, 1024 + (h % 50000)));
        let size_before = self.model.size(fam, &ih);
        let start = self.start;
        let age = self.scn.max_peer_age;
        let vu = catch(move || ValidUntil::new(start, age));
        let vu = match vu {
            Ok(Some(v)) => v,
            Ok(None) => {
                self.fail(&["C10"], "deadline-computation", "valid-until-none", "ValidUntil::new returned None under a monotonic clock".into());
                return;
            }
            Err(msg) => {
                self.fail(
                    &["C10", "C12"],
                    "deadline-computation",
                    "valid-until-overflow",
                    format!("ValidUntil::new panicked at now={} s with max_peer_age={}: {}", now, age, msg),
                );
                return;
            }
        };
        let maps = self.maps.clone();
        let cfg = self.config.clone();
        let tx = self.tx.clone();
        let mut rng = self.rng.clone();
        let res = catch(|| {
            let r = maps.announce(&cfg, &tx, &mut rng, &req, src, vu);
            (r, rng)
        });
        let resp = match res {
            Ok((r, rng)) => {
                self.rng = rng;
                r
            }
            Err(msg) => {
                self.fail(&["C12", "C02", "C01"], "announce-panic", "announce-panic", format!("TorrentMaps::announce panicked: {}", msg));
                return;
            }
        };
        stats.evaluations += 1;
        let view = self.model.announce(fam, ih, key, stopped, seeder, deadline, peer_id(pid));
        let (fixed, peers): (AnnounceResponseFixedData, Vec<Key>) = match (&resp, v6) {
            (Response::AnnounceIpv4(r), false) => (r.fixed, r.peers.iter().map(|p| (IpAddr::V4(Ipv4Addr::from(p.ip_address.0)), p.port.0.get())).collect()),
            (Response::AnnounceIpv6(r), true) => (r.fixed, r.peers.iter().map(|p| (IpAddr::V6(Ipv6Addr::from(p.ip_address.0)), p.port.0.get())).collect()),
            _ => {
                self.fail(&["C01", "C03", "C06"], "announce-reply-kind", "wrong-family", format!("announce from source {:?} (canonical {:?}) answered with the other family's reply kind", raw_ip, ip));
                return;
            }
        };
        fold(&mut self.transcript, fixed.seeders.0.get() as u64);
        fold(&mut self.transcript, fixed.leechers.0.get() as u64);
        for p in &peers {
            fold(&mut self.transcript, p.1 as u64);
        }
        if fixed.transaction_id.0.get() != self.txid {
            self.fail(&["C06"], "transaction-id", "txid", "announce reply carries a different transaction id".into());
        }
        if fixed.seeders.0.get() as i64 != view.seeders as i64 || fixed.leechers.0.get() as i64 != view.leechers as i64 {
            let sig = if size_before > 2 { "counts-heap" } else { "counts-inline" };
            self.fail(
                &["C01"],
                "announce-counts",
                sig,
                format!(
                    "announce t={} {:?}: reply seeders/leechers {}/{} but reference {}/{} (excluding the announcer)",
                    t,
                    key,
                    fixed.seeders.0.get(),
                    fixed.leechers.0.get(),
                    view.seeders,
                    view.leechers
                ),
            );
        }
        let limit = limit_of(Some(want as i64), self.scn.max_response_peers);
        if let Err((check, detail)) = check_peer_list(&peers, &view.candidates, &key, limit) {
            let props: &[&str] = if check == "peers-stored-member" || check == "peers-all-if-fit" { &["C02", "C01"] } else { &["C02"] };
            self.fail(props, check, check, format!("announce t={} {:?} want={} max={}: {}", t, key, want, self.scn.max_response_peers, detail));
        }
        // behaviour signature
        let size_after = self.model.size(fam, &ih);
        let cls = |n: usize| n.min(4) as u64;
        fold(&mut self.sig, 1 | (ev as u64 % 4) << 4 | (view.previous.is_some() as u64) << 8 | (seeder as u64) << 9 | cls(size_before) << 12 | cls(size_after) << 16 | (v6 as u64) << 20);
        if !probe {
            if stopped && view.previous.is_some() {
                self.saw_removal = true;
            }
            if !view.candidates.is_empty() {
                self.saw_nonempty_announce = true;
            }
            if size_before <= 2 && size_after > 2 {
                stats.probe("inline-to-heap");
            }
            if size_before > 2 && size_after <= 2 {
                stats.probe("heap-to-inline-by-stop");
            }
            if view.previous.as_ref().map_or(false, |p| p.seeder != seeder) && !stopped {
                stats.probe("seeder-status-flip");
            }
            if view.previous.as_ref().map_or(false, |p| p.peer_id != peer_id(pid)) {
                stats.probe("peer-id-change");
            }
            if view.candidates.len() > limit {
                stats.probe("swarm-exceeds-limit");
            }
            if want <= 0 {
                stats.probe("numwant-nonpositive");
            }
        }
        self.drain_stats();
        self.check_tally("after announce");
    }

    fn do_scrape(&mut self, v6: bool, ac: u8, ts: &[u8], stats: &mut Stats, props: &[&str], check: &str) {
        let raw_ip = src_ip(v6, ac, 999);
        let fam = Fam::of(&canon_ip(raw_ip));
        self.txid = self.txid.wrapping_add(1);
        let req = ScrapeRequest { connection_id: ConnectionId::new(0), transaction_id: TransactionId::new(self.txid), info_hashes: ts.iter().map(|t| InfoHash(info_hash(*t))).collect() };
        let src = CanonicalSocketAddr::new(SocketAddr::new(raw_ip, 5000));
        let maps = self.maps.clone();
        let resp = match catch(move || maps.scrape(req, src)) {
            Ok(r) => r,
            Err(msg) => {
                self.fail(&["C12", "C01"], "scrape-panic", "scrape-panic", format!("TorrentMaps::scrape panicked: {}", msg));
                return;
            }
        };
        stats.evaluations += 1;
        if resp.torrent_stats.len() != ts.len() {
            self.fail(&["C01", "C06"], "scrape-length", "scrape-length", format!("scrape of {} hashes answered with {} entries", ts.len(), resp.torrent_stats.len()));
            return;
        }
        for (t, st) in ts.iter().zip(resp.torrent_stats.iter()) {
            let (s, l) = self.model.scrape(fam, &info_hash(*t));
            fold(&mut self.transcript, st.seeders.0.get() as u64);
            fold(&mut self.transcript, st.leechers.0.get() as u64);
            if st.seeders.0.get() as i64 != s as i64 || st.leechers.0.get() as i64 != l as i64 {
                self.fail(
                    props,
                    check,
                    check,
                    format!("scrape t={} fam={:?}: reply seeders/leechers {}/{} but reference {}/{}", t, fam, st.seeders.0.get(), st.leechers.0.get(), s, l),
                );
                return;
            }
        }
        fold(&mut self.sig, 2 | (ts.len() as u64) << 4);
    }

    fn all_torrents(&self) -> Vec<u8> {
        let mut ts: Vec<u8> = self.scn.ops.iter().filter_map(|o| if let Op::Ann { t, .. } = o { Some(*t) } else { None }).collect();
        ts.sort();
        ts.dedup();
        ts
    }

    fn do_clean(&mut self, stats: &mut Stats) {
        let ts = self.all_torrents();
        // consistent before?
        let before = self.violations.len();
        self.do_scrape(false, 0, &ts, stats, &["C01"], "scrape-counts");
        self.do_scrape(true, 0, &ts, stats, &["C01"], "scrape-counts");
        if self.violations.len() > before {
            return;
        }
        let now = self.now_secs();
        let start = self.start;
        let now_real = match start.seconds_elapsed() {
            Some(n) => n,
            None => {
                self.fail(&["C10"], "clock", "clock", "seconds_elapsed returned None under a monotonic clock".into());
                return;
            }
        };
        let maps = self.maps.clone();
        let cfg = self.config.clone();
        let st = self.stats_shared.clone();
        let tx = self.tx.clone();
        let al = self.access.clone();
        let r = catch(|| {
            maps.clean_and_update_statistics(&cfg, &st, &tx, &al, now_real, false);
        });
        if r.is_err() {
            self.fail(&["C12", "C01", "C10"], "clean-panic", "clean-panic", "clean_and_update_statistics panicked".into());
            return;
        }
        stats.evaluations += 1;
        let allowed_list: Vec<[u8; 20]> = self.list.iter().map(|t| info_hash(*t)).collect();
        let mode = self.scn.access_mode;
        if self.model.torrents.keys().any(|(_, ih)| !self.allowed(ih)) {
            stats.probe("clean-with-stored-forbidden-torrent");
        }
        let allowed = move |ih: &[u8; 20]| match mode {
            1 => allowed_list.contains(ih),
            2 => !allowed_list.contains(ih),
            _ => true,
        };
        // probes about what this pass should do
        let mut at_deadline = false;
        let mut one_before = false;
        let mut heap_expiry = false;
        for ((_, _), l) in &self.model.torrents {
            for (_, e) in l {
                if e.deadline == now {
                    at_deadline = true;
                    if l.len() > 2 {
                        heap_expiry = true;
                    }
                }
                if e.deadline == now + 1 {
                    one_before = true;
                }
            }
        }
        let removed = self.model.clean(now, &allowed);
        if at_deadline {
            stats.probe("clean-exactly-at-deadline");
        }
        if one_before {
            stats.probe("clean-one-second-before-deadline");
        }
        if heap_expiry {
            stats.probe("expiry-in-heap-map");
        }
        if !removed.is_empty() {
            self.saw_removal = true;
            stats.probe("clean-removed-something");
        }
        fold(&mut self.sig, 3 | (removed.len().min(7) as u64) << 4 | (at_deadline as u64) << 8 | (one_before as u64) << 9);
        self.drain_stats();
        self.check_tally("after clean");
        // operator totals
        for (fam, s) in [(Fam::V4, &self.stats_shared.ipv4), (Fam::V6, &self.stats_shared.ipv6)] {
            let tor = s.torrents.load(Ordering::Relaxed);
            let peers = s.peers.load(Ordering::Relaxed);
            let (mt, mp) = (self.model.num_torrents(fam), self.model.num_peers(fam));
            if tor != mt || peers != mp {
                self.violations.push(Violation::new("C20", "report-totals", "report-totals", format!("after clean at {} s: reported {:?} torrents/peers {}/{} but {} / {} are stored", now, fam, tor, peers, mt, mp)));
                self.violations.push(Violation::new("C01", "torrent-dropped-when-empty", "report-totals", format!("after clean at {} s: {:?} torrents/peers {}/{} vs reference {}/{}", now, fam, tor, peers, mt, mp)));
                // (the pass removed too much or too little: C10's concern as much as the reports')
                self.violations.push(Violation::new("C10", "state-after-clean", "state-after-clean", format!("after clean at {} s: {:?} holds torrents/peers {}/{} but exactly {}/{} have a deadline in the future", now, fam, tor, peers, mt, mp)));
                return;
            }
        }
        // a clean must not change anything but expiry / access list: post-clean state == model
        self.do_scrape(false, 0, &ts, stats, &["C10", "C01"], "state-after-clean");
        self.do_scrape(true, 1, &ts, stats, &["C10", "C01"], "state-after-clean");
    }

    /// quiescent sweep: every torrent is scraped; a fresh peer announces and stops on each
    fn sweep(&mut self, stats: &mut Stats) {
        let ts = self.all_torrents();
        self.do_scrape(false, 0, &ts, stats, &["C01"], "final-scrape");
        self.do_scrape(true, 2, &ts, stats, &["C01"], "final-scrape");
        self.do_scrape(true, 1, &ts, stats, &["C01"], "final-scrape");
        for t in ts {
            for v6 in [false, true] {
                if !self.violations.is_empty() {
                    return;
                }
                self.do_announce(t, v6, 0, 60000, 9, 1, 1, i32::MAX, 250, stats, true);
                self.do_announce(t, v6, 0, 60000, 9, 3, 1, 0, 250, stats, true);
            }
        }
    }
}

impl Harness for UdpStore {
    type Scn = Scn;
    const NAME: &'static str = "udp_store";

    fn generate(seed: u64, tier: Tier, prop: &str) -> Scn {
        let mut r = Prng::stream(seed, "scenario");
        let max_response_peers = *r.pick(&[0usize, 1, 2, 3, 5, 30, 50, 100, 1000]);
        let max_peer_age = if prop == "C10" && r.chance(40) {
            *r.pick(&[u32::MAX, u32::MAX - 1, u32::MAX / 2 + 1])
        } else {
            *r.pick(&[1u32, 2, 3, 5, 30, 60, 1200])
        };
        let access_mode = if r.chance(250) { r.range(1, 2) as u8 } else { 0 };
        let access_list = (0..r.below(5)).map(|_| r.below(8) as u8).collect();
        let ops = Self::gen_ops(&mut r, prop, tier, max_peer_age, max_response_peers);
        Scn { max_response_peers, max_peer_age, peer_clients: r.chance(700), rng_seed: r.next_u64(), access_mode, access_list, ops }
    }

    fn execute(scn: &Scn, prop: &str, stats: &mut Stats) -> Outcome {
        time::set_manual_secs(0);
        foldhash::verif_reset_seed_counter();
        let mut config = Config::default();
        config.protocol.max_response_peers = scn.max_response_peers;
        config.cleaning.max_peer_age = scn.max_peer_age;
        config.statistics.peer_clients = scn.peer_clients;
        config.statistics.write_html_to_file = true;
        config.statistics.interval = 5;
        config.access_list.mode = match scn.access_mode {
            1 => AccessListMode::Allow,
            2 => AccessListMode::Deny,
            _ => AccessListMode::Off,
        };
        let mut list = AccessList::default();
        for t in &scn.access_list {
            let hex: String = info_hash(*t).iter().map(|b| format!("{:02x}", b)).collect();
            list.insert_from_line(&hex).unwrap();
        }
        let access: Arc<AccessListArcSwap> = Arc::new(arc_swap::ArcSwap::from_pointee(list));
        let (tx, rx) = crossbeam_channel::unbounded();
        let mut ex = Exec {
            scn,
            prop,
            config,
            maps: TorrentMaps::default(),
            start: ServerStartInstant::new(),
            stats_shared: Default::default(),
            tx,
            rx,
            access,
            rng: SmallRng::seed_from_u64(scn.rng_seed),
            model: RefTracker::default(),
            tally: BTreeMap::new(),
            violations: Vec::new(),
            transcript: 0,
            sig: 0,
            saw_removal: false,
            saw_nonempty_announce: false,
            txid: 0,
            list: scn.access_list.clone(),
        };
        for op in &scn.ops {
            if !ex.violations.is_empty() {
                break;
            }
            match op {
                Op::Ann { t, v6, ac, h, port, ev, left, want, pid } => {
                    // the access-list gate sits in the socket worker; mimic it so that the
                    // store never sees forbidden announces (as in the real tracker)
                    if !ex.allowed(&info_hash(*t)) {
                        continue;
                    }
                    ex.do_announce(*t, *v6, *ac, *h, (*port).max(1), *ev, *left, *want, *pid, stats, false)
                }
                Op::Scr { v6, ac, ts } => ex.do_scrape(*v6, *ac, ts, stats, &["C01"], "scrape-counts"),
                Op::Clean => ex.do_clean(stats),
                Op::Adv { secs } => {
                    let n = time::manual_ns() / 1_000_000_000 + secs;
                    time::set_manual_secs(n.min(u32::MAX as u64 - 10));
                }
                Op::SetList { list } => {
                    if scn.access_mode != 0 {
                        let mut l = AccessList::default();
                        for t in list {
                            let hex: String = info_hash(*t).iter().map(|b| format!("{:02x}", b)).collect();
                            l.insert_from_line(&hex).unwrap();
                        }
                        ex.access.store(Arc::new(l));
                        ex.list = list.clone();
                    }
                }
            }
            stats.states.insert(ex.model.state_hash());
        }
        if ex.violations.is_empty() {
            ex.sweep(stats);
        }
        stats.sim_seconds += time::manual_ns() / 1_000_000_000;
        let nontrivial = ex.saw_removal && ex.saw_nonempty_announce;
        let _ = ex.prop;
        Outcome { violations: ex.violations, fingerprint: ex.transcript, signature: if nontrivial { Some(ex.sig) } else { None } }
    }

    fn size(scn: &Scn) -> usize {
        scn.ops.len()
    }

    fn shrink(scn: &Scn) -> Vec<Scn> {
        let mut out = Vec::new();
        for (a, b) in chunk_removals(scn.ops.len()) {
            let mut s = scn.clone();
            s.ops.drain(a..b);
            out.push(s);
        }
        if scn.access_mode != 0 {
            let mut s = scn.clone();
            s.access_mode = 0;
            out.push(s);
        }
        if scn.peer_clients {
            let mut s = scn.clone();
            s.peer_clients = false;
            out.push(s);
        }
        if scn.ops.iter().any(|o| matches!(o, Op::Ann { v6: true, .. } | Op::Scr { v6: true, .. })) {
            let mut s = scn.clone();
            for o in s.ops.iter_mut() {
                match o {
                    Op::Ann { v6, .. } => *v6 = false,
                    Op::Scr { v6, .. } => *v6 = false,
                    _ => {}
                }
            }
            out.push(s);
        }
        // simplify single operations
        for (i, op) in scn.ops.iter().enumerate() {
            match op {
                Op::Ann { t, v6, ac, h, port, ev, left, want, pid } => {
                    if *want != 0 {
                        let mut s = scn.clone();
                        s.ops[i] = Op::Ann { t: *t, v6: *v6, ac: *ac, h: *h, port: *port, ev: *ev, left: *left, want: 0, pid: *pid };
                        out.push(s);
                    }
                    if *left != 0 && *left != 1 {
                        let mut s = scn.clone();
                        s.ops[i] = Op::Ann { t: *t, v6: *v6, ac: *ac, h: *h, port: *port, ev: *ev, left: 1, want: *want, pid: *pid };
                        out.push(s);
                    }
                    if *ac != 0 {
                        let mut s = scn.clone();
                        s.ops[i] = Op::Ann { t: *t, v6: *v6, ac: 0, h: *h, port: *port, ev: *ev, left: *left, want: *want, pid: *pid };
                        out.push(s);
                    }
                }
                Op::Adv { secs } if *secs > 1 => {
                    let mut s = scn.clone();
                    s.ops[i] = Op::Adv { secs: secs / 2 };
                    out.push(s);
                    let mut s = scn.clone();
                    s.ops[i] = Op::Adv { secs: secs - 1 };
                    out.push(s);
                }
                Op::Scr { v6, ac, ts } if ts.len() > 1 => {
                    let mut s = scn.clone();
                    s.ops[i] = Op::Scr { v6: *v6, ac: *ac, ts: ts[..1].to_vec() };
                    out.push(s);
                }
                _ => {}
            }
        }
        out
    }
}
