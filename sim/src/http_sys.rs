//! HTTP-SYS: the real `aquatic_http::run(config)` — socket workers (accept, run_connection,
//! read_request, handle_request, scrape fan-out, write_response, connection cleaning), swarm
//! workers, signal thread and watchdog — over the glommio stand-in on the discrete-event
//! engine, driven by simulated clients with an independent HTTP/1.1 + bencode reader.
//! Oracles: framing of every reply; one reply per request, in order; liveness; replies of each
//! torrent linearizable against one `RefTracker` whatever the worker counts; source-address
//! rule (TCP peer / last forwarded-header address); access-list gate; worker deaths.
//! Decides: C16, C03 (HTTP), C18 (HTTP), C19 (HTTP), C12 (HTTP), thorough parts of C07/C11.
use crate::bencode::{self, B};
use crate::core::*;
use crate::model::*;
use crate::prng::Prng;
use crate::udp_store::{canon_ip, peer_id, src_ip};
use aquatic_http::config::Config;
use aquatic_verif_rt::engine::{self, EngineCfg, Strategy};
use aquatic_verif_rt::net::tcp::{self, ClientStream, Pick};
use aquatic_verif_rt::{fault, fs, signal, thread};
use serde::{Deserialize, Serialize};
use std::collections::{BTreeMap, BTreeSet, HashSet};
use std::net::{IpAddr, SocketAddr};
use std::sync::{Arc, Mutex};
use std::time::Duration;

type H20 = [u8; 20];

#[derive(Clone, Debug, Serialize, Deserialize, PartialEq)]
pub enum HOp {
    Sleep { ms: u32 },
    /// announce; `seg`: byte offsets at which the request is cut into TCP segments;
    /// `hdr`: forwarded-header layout when the tracker runs behind a reverse proxy
    /// `via` (behind a reverse proxy only): the request comes from another client (host offset) multiplexed onto
    /// this upstream connection
    Ann { t: u8, ev: u8, left: u64, want: Option<u64>, port: u16, pid: u8, style: u8, seg: Vec<u16>, hdr: u8, #[serde(default)] via: u8 },
    Scr { ts: Vec<u8>, seg: Vec<u16>, hdr: u8 },
    /// kind 0: garbage line; 1: request larger than the request buffer; 2: announce with a 19-byte info hash;
    /// 3: unknown path; 4: missing port; 5: POST; 6: binary junk; 7: request without the forwarded header (proxy mode);
    /// 8: parameter without '=' before the others; 9: leading '&'; 10: several '=' in one parameter; 11: non-UTF-8 and
    /// over-long identifiers; 12-15: a valid announce with characters inserted / deleted / replaced at positions drawn from `r`
    Bad { kind: u8, r: u64 },
    /// client resets the connection `after` bytes into the next request (mid-request reset)
    ResetMid { after: u16 },
    /// orderly close; the next request opens a new connection
    Close,
}

#[derive(Clone, Debug, Serialize, Deserialize, PartialEq)]
pub struct Conn {
    pub v6: bool,
    pub ac: u8,
    pub h: u16,
    pub sport: u16,
    /// listener choice: 0 = hash, k = index k-1
    pub pick: u8,
    /// caps for the tracker's successive writes on this connection (short writes)
    pub write_caps: Vec<u16>,
    /// the client reads replies in chunks of this size with pauses (back-pressure) when > 0
    pub slow_read: u16,
    pub script: Vec<HOp>,
}

#[derive(Clone, Debug, Serialize, Deserialize, PartialEq)]
pub enum PF {
    Panic { thread: String, n: u64 },
    PanicAt { thread: String, ms: u64 },
    BindFail { thread: String },
    EndLoop { thread: String, n: u64 },
    SignalsClose { ms: u64 },
    SpawnFail { thread: String },
}

#[derive(Clone, Debug, Serialize, Deserialize)]
pub struct Scn {
    pub socket_workers: u8,
    pub swarm_workers: u8,
    pub layout: u8,
    pub keep_alive: bool,
    pub max_peers: usize,
    pub max_scrape_torrents: usize,
    pub max_peer_age: u32,
    pub cleaning_interval: u64,
    pub conn_cleaning_interval: u64,
    pub max_connection_idle: u32,
    pub behind_proxy: bool,
    pub access_mode: u8,
    pub access_list: Vec<u8>,
    pub reloads: Vec<(u32, Vec<u8>, bool)>,
    pub s2c_cap: u32,
    pub sched_strategy: u8,
    pub sched_seed: u64,
    pub entropy_seed: u64,
    pub yield_permille: u32,
    pub duration_ms: u64,
    pub conns: Vec<Conn>,
    pub faults: Vec<PF>,
    /// clients do not wait for the tracker to come up: they connect the instant a listener exists
    #[serde(default)]
    pub early: bool,
    /// expiry probe: (max_peer_age, torrent_cleaning_interval) in seconds; two scripted connections work torrent 7 and
    /// its scrape counts are judged against deadline windows (the reference-tracker check of the other torrents is off)
    #[serde(default)]
    pub probe: Option<(u32, u64)>,
    /// privileges.drop_privileges: the socket workers rendezvous at a barrier after binding (the chroot itself is not simulated)
    #[serde(default)]
    pub drop_priv: bool,
    /// metrics.run_prometheus_endpoint: the metrics worker (a simulated exporter thread, rt::metrics) is spawned and
    /// registered by the real run(); the trackers' metrics code (gauges, counters, torrent-count timer) runs for real
    #[serde(default)]
    pub prometheus: bool,
    #[serde(default)]
    pub torrent_count_update_interval: u64,
    /// accept attempts (1-based, counted over all listeners, only those that find a connection waiting) that fail once
    /// with ECONNABORTED; the waiting connection stays in the backlog and must be accepted by the next attempt
    #[serde(default)]
    pub accept_faults: Vec<u64>,
}

pub const HEADER_NAME: &str = "X-Forwarded-For";

/// Info hashes made of unreserved bytes (31 request bytes each) whose first byte spreads them
/// over the swarm workers (first byte % swarm_workers).
pub fn info_hash(t: u8) -> H20 {
    let mut h = [b'a'; 20];
    h[0] = b'0' + (t % 10);
    h[1] = b'A' + (t / 10) % 26;
    h[2] = b'a' + (t % 26);
    h[19] = b'0' + (t % 7);
    h
}

fn pct(bytes: &[u8], force: bool) -> String {
    let mut s = String::new();
    for b in bytes {
        if !force && (b.is_ascii_alphanumeric() || matches!(b, b'-' | b'_' | b'.' | b'~')) {
            s.push(*b as char);
        } else {
            s.push_str(&format!("%{:02X}", b));
        }
    }
    s
}

/// Client host `h` as it appears on the wire / in forwarded headers.
fn conn_addr(c: &Conn) -> SocketAddr {
    SocketAddr::new(src_ip(c.v6, if c.v6 { c.ac % 2 } else { 0 }, c.h), c.sport.max(1))
}

/// Forwarded-header lines for layout `hdr`; returns (header text, the address the tracker must use).
fn forwarded(hdr: u8, true_ip: IpAddr, other: IpAddr) -> (String, IpAddr) {
    let t = match true_ip {
        IpAddr::V4(a) => {
            if hdr & 8 != 0 {
                // IPv4-mapped form must be treated as the embedded IPv4 address
                format!("::ffff:{}", a)
            } else {
                a.to_string()
            }
        }
        IpAddr::V6(a) => a.to_string(),
    };
    // the decoy entries (what a client could have put into the header itself): the scripts' own hosts are all in
    // 10.0.0.0/8, so without these a tracker that prefers "public" over "private" entries would never be told apart
    let o = match (hdr / 6) % 3 {
        0 => other.to_string(),
        1 => "203.0.113.77".to_string(),
        _ => "2001:db8:77::1".to_string(),
    };
    let mut s = String::new();
    match hdr % 6 {
        0 => s.push_str(&format!("{}: {}\r\n", HEADER_NAME, t)),
        1 => s.push_str(&format!("{}: {}, {}\r\n", HEADER_NAME, o, t)),
        2 => s.push_str(&format!("{}:  {} ,{}  \r\n", HEADER_NAME, o, t)),
        3 => {
            // two occurrences: the last one counts
            s.push_str(&format!("{}: {}\r\n", HEADER_NAME, o));
            s.push_str(&format!("{}: {}\r\n", HEADER_NAME, t));
        }
        4 => {
            s.push_str(&format!("X-Real-IP: {}\r\n", o));
            s.push_str(&format!("{}: {},{},{}\r\n", HEADER_NAME, o, o, t));
            s.push_str(&format!("Forwarded: for={}\r\n", o));
        }
        _ => {
            s.push_str(&format!("{}: {}\r\n", HEADER_NAME, o));
            s.push_str("Accept: */*\r\n");
            s.push_str(&format!("{}: {}, {}\r\n", HEADER_NAME, t, t));
        }
    }
    (s, canon_ip(true_ip))
}

#[allow(clippy::too_many_arguments)]
fn enc_announce(t: u8, ev: u8, left: u64, want: Option<u64>, port: u16, pid: u8, style: u8, extra_ip: IpAddr) -> String {
    let ih = pct(&info_hash(t), style & 1 != 0);
    let p = pct(&peer_id(pid), style & 2 != 0);
    let evs = match ev % 4 {
        0 => None,
        1 => Some("started"),
        2 => Some("completed"),
        _ => Some("stopped"),
    };
    let mut params: Vec<String> = vec![format!("info_hash={}", ih), format!("peer_id={}", p), format!("port={}", port), "uploaded=0".into(), "downloaded=0".into(), format!("left={}", left), "compact=1".into()];
    if let Some(e) = evs {
        params.push(format!("event={}", e));
    }
    if let Some(w) = want {
        params.push(format!("numwant={}", w));
    }
    // in-request address fields (must be ignored by the tracker)
    if style & 4 != 0 {
        params.push(format!("ip={}", extra_ip));
    }
    if style & 8 != 0 {
        params.push("ipv6=2001%3Adb8%3A%3A99".into());
        params.push("key=abcd".into());
    }
    if style & 16 != 0 {
        params.reverse();
    }
    if style & 32 != 0 {
        params.insert(1, "unknown_param=1".into());
    }
    format!("GET /announce?{} HTTP/1.1\r\nHost: tracker.example\r\n", params.join("&"))
}

fn enc_scrape(ts: &[u8]) -> String {
    let q: Vec<String> = ts.iter().map(|t| format!("info_hash={}", pct(&info_hash(*t), false))).collect();
    format!("GET /scrape?{} HTTP/1.1\r\nHost: tracker.example\r\n", q.join("&"))
}

// ------------------------------------------------------------------ client-side observations

#[derive(Clone, Debug)]
enum Reply {
    Announce { complete: i64, incomplete: i64, peers: Vec<Key>, peers_other_family: usize },
    Scrape { files: BTreeMap<H20, (i64, i64)> },
    Failure { reason: String },
}

#[derive(Clone, Debug)]
enum Req {
    Ann { t: u8, key: Key, stopped: bool, seeder: bool, limit: usize, pid: u8 },
    Scr { ts: Vec<u8>, fam: Fam },
}

#[derive(Clone, Debug)]
struct Obs {
    conn: usize,
    inv: u64,
    ret: u64,
    t_sent_ns: u64,
    t_done_ns: u64,
    req: Req,
    /// Ok(reply) | Err(what went wrong with framing / liveness)
    res: Result<Reply, (String, String)>,
    /// faults were active on this exchange (reset, short write ...): an error is then not a verdict
    excused: bool,
}

#[derive(Default)]
struct Collected {
    obs: Vec<Obs>,
    run_returned: Option<(u64, Result<(), String>)>,
    end_ns: u64,
    reload_times: Vec<(u64, u64)>,
    unexpected: Vec<(usize, String)>,
    usable_violations: Vec<String>,
}

struct Framed {
    body: Vec<u8>,
}

/// Read one HTTP response with the independent framing model.
fn read_response(s: &ClientStream, buf: &mut Vec<u8>, slow: u16) -> Result<Framed, (String, String)> {
    let timeout = 8_000_000_000u64;
    let mut fill = |buf: &mut Vec<u8>| -> Result<bool, (String, String)> {
        let max = if slow > 0 { slow as usize } else { 65536 };
        if slow > 0 {
            thread::sleep(Duration::from_millis(2));
        }
        match s.read(max, timeout) {
            Ok(v) if v.is_empty() => Ok(false),
            Ok(v) => {
                buf.extend_from_slice(&v);
                Ok(true)
            }
            Err(e) if e.kind() == std::io::ErrorKind::TimedOut => Err(("reply-within-bound".into(), format!("no (complete) reply within {} simulated seconds; {} bytes received so far", timeout / 1_000_000_000, buf.len()))),
            Err(e) => Err(("connection-stays-usable".into(), format!("connection failed while waiting for the reply: {}", e))),
        }
    };
    // headers
    let hdr_end = loop {
        if let Some(p) = buf.windows(4).position(|w| w == b"\r\n\r\n") {
            break p + 4;
        }
        if buf.len() > 8192 {
            return Err(("reply-framing".into(), "no end of headers within 8 KiB".into()));
        }
        if !fill(buf)? {
            return Err(if buf.is_empty() { ("one-reply-per-request".into(), "connection closed by the tracker before any reply byte".into()) } else { ("reply-framing".into(), format!("connection closed inside the reply headers after {} bytes", buf.len())) });
        }
    };
    let head = String::from_utf8_lossy(&buf[..hdr_end]).to_string();
    let mut lines = head.split("\r\n");
    let status = lines.next().unwrap_or("");
    if status != "HTTP/1.1 200 OK" {
        return Err(("reply-framing".into(), format!("status line {:?} instead of \"HTTP/1.1 200 OK\"", status)));
    }
    let mut clen: Option<usize> = None;
    for l in lines {
        if let Some(v) = l.strip_prefix("Content-Length:") {
            let v = v.trim();
            if v.is_empty() || !v.bytes().all(|b| b.is_ascii_digit()) {
                return Err(("reply-framing".into(), format!("Content-Length value {:?} is not a decimal number", v)));
            }
            clen = v.parse().ok();
        }
    }
    let clen = clen.ok_or(("reply-framing".to_string(), "no Content-Length header".to_string()))?;
    while buf.len() < hdr_end + clen {
        if !fill(buf)? {
            return Err(("reply-framing".into(), format!("Content-Length says {} bytes but the connection closed after {} body bytes", clen, buf.len() - hdr_end)));
        }
    }
    let body: Vec<u8> = buf[hdr_end..hdr_end + clen].to_vec();
    buf.drain(..hdr_end + clen);
    Ok(Framed { body })
}

fn decode_reply(body: &[u8], fam: Fam) -> Result<Reply, (String, String)> {
    let (v, n) = bencode::parse(body).map_err(|e| ("reply-framing".to_string(), format!("body is not a complete bencoded value: {} (body {:?})", e, String::from_utf8_lossy(&body[..body.len().min(80)]))))?;
    if &body[n..] != b"\r\n" {
        return Err(("reply-framing".into(), format!("{} bytes follow the bencoded value inside Content-Length (expected CRLF): {:?}", body.len() - n, String::from_utf8_lossy(&body[n..body.len().min(n + 40)]))));
    }
    if let Some(r) = v.get("failure reason") {
        return Ok(Reply::Failure { reason: String::from_utf8_lossy(r.bytes().unwrap_or(b"")).to_string() });
    }
    if let Some(f) = v.get("files") {
        let mut files = BTreeMap::new();
        if let B::Dict(d) = f {
            for (k, st) in d {
                let k: H20 = k.as_slice().try_into().map_err(|_| ("reply-framing".to_string(), "scrape key is not 20 bytes".to_string()))?;
                files.insert(k, (st.get("complete").and_then(|x| x.int()).unwrap_or(-1), st.get("incomplete").and_then(|x| x.int()).unwrap_or(-1)));
            }
        }
        return Ok(Reply::Scrape { files });
    }
    let complete = v.get("complete").and_then(|x| x.int()).ok_or(("reply-framing".to_string(), "announce reply without 'complete'".to_string()))?;
    let incomplete = v.get("incomplete").and_then(|x| x.int()).ok_or(("reply-framing".to_string(), "announce reply without 'incomplete'".to_string()))?;
    let p4 = v.get("peers").and_then(|x| x.bytes()).unwrap_or(b"");
    let p6 = v.get("peers6").and_then(|x| x.bytes()).unwrap_or(b"");
    if p4.len() % 6 != 0 || p6.len() % 18 != 0 {
        return Err(("reply-framing".into(), "compact peer lists are not multiples of 6 / 18 bytes".into()));
    }
    let l4: Vec<Key> = p4.chunks(6).map(|c| (IpAddr::from(<[u8; 4]>::try_from(&c[..4]).unwrap()), u16::from_be_bytes([c[4], c[5]]))).collect();
    let l6: Vec<Key> = p6.chunks(18).map(|c| (IpAddr::from(<[u8; 16]>::try_from(&c[..16]).unwrap()), u16::from_be_bytes([c[16], c[17]]))).collect();
    let (peers, other) = if fam == Fam::V4 { (l4, l6.len()) } else { (l6, l4.len()) };
    Ok(Reply::Announce { complete, incomplete, peers, peers_other_family: other })
}

fn client_main(idx: usize, scn: Arc<Scn>, col: Arc<Mutex<Collected>>) {
    let c = scn.conns[idx].clone();
    let addr = conn_addr(&c);
    // behind a proxy the TCP peer is the proxy (another address); the true client goes in the header
    let tcp_src = if scn.behind_proxy { SocketAddr::new(src_ip(false, 0, 900 + idx as u16), 30000 + idx as u16) } else { addr };
    let pick = if c.pick == 0 { Pick::Hash } else { Pick::Index(c.pick as usize - 1) };
    let other_ip = src_ip(false, 0, 777);
    let mut stream: Option<ClientStream> = None;
    let mut buf: Vec<u8> = Vec::new();
    let mut reset_after: Option<u16> = None;
    let mut last_reply_ns: Option<u64> = None;
    let mut excused_conn = false;
    for op in &c.script {
        match op {
            HOp::Sleep { ms } => {
                thread::sleep(Duration::from_millis(*ms as u64));
                continue;
            }
            HOp::Close => {
                stream = None;
                buf.clear();
                continue;
            }
            HOp::ResetMid { after } => {
                reset_after = Some(*after);
                continue;
            }
            _ => {}
        }
        if stream.is_none() {
            let mut conn = tcp::connect(tcp_src, pick);
            let mut tries = 0;
            while conn.is_none() && scn.early && engine::now() == 0 && tries < 400 {
                // no listener yet: a real client's SYN would be retried
                engine::yield_now();
                tries += 1;
                conn = tcp::connect(tcp_src, pick);
            }
            match conn {
                Some(s) => {
                    if !c.write_caps.is_empty() {
                        tcp::set_write_caps(s.id(), c.write_caps.iter().map(|x| (*x).max(1) as usize).collect());
                        excused_conn = true;
                    }
                    stream = Some(s);
                    buf.clear();
                    last_reply_ns = None;
                }
                None => return, // no listener for this family: nothing to observe
            }
        }
        let fam = Fam::of(&canon_ip(addr.ip()));
        let mut req_ip = addr.ip();
        let (text, hdr, segs, req): (String, u8, Vec<u16>, Option<Req>) = match op {
            HOp::Ann { t, ev, left, want, port, pid, style, seg, hdr, via } => {
                if scn.behind_proxy && *via > 0 {
                    req_ip = src_ip(c.v6, if c.v6 { c.ac % 2 } else { 0 }, c.h + 40 * *via as u16);
                }
                let key: Key = (canon_ip(req_ip), *port);
                let limit = limit_of(want.map(|w| w.min(i64::MAX as u64) as i64), scn.max_peers);
                (enc_announce(*t, *ev, *left, *want, *port, *pid, *style, other_ip), *hdr, seg.clone(), Some(Req::Ann { t: *t, key, stopped: ev % 4 == 3, seeder: *left == 0, limit, pid: *pid }))
            }
            HOp::Scr { ts, seg, hdr } => (enc_scrape(ts), *hdr, seg.clone(), Some(Req::Scr { ts: ts.clone(), fam })),
            HOp::Bad { kind, r } => {
                let mut st = *r;
                let valid = enc_announce(250, 1, 1, Some(5), 1000, 1, 0, other_ip); // a torrent no regular operation uses
                let t = match kind % 16 {
                    8 => valid.replacen("?", "?compact&", 1),
                    9 => valid.replacen("?", "?&", 1),
                    10 => valid.replacen("?", "?a=b=c&", 1).replacen("port=1000", "port=1=2==", 1),
                    11 => valid.replacen("info_hash=", "info_hash=%FF%FE%80%81%C3%28", 1).replacen("peer_id=", &format!("peer_id={}", "%41".repeat(90)), 1),
                    12..=15 => {
                        let mut b = valid.clone().into_bytes();
                        for _ in 0..(1 + crate::prng::splitmix(&mut st) % 4) {
                            if b.len() < 40 {
                                break;
                            }
                            let pos = (crate::prng::splitmix(&mut st) % (b.len() as u64 - 20)) as usize + 4;
                            match crate::prng::splitmix(&mut st) % 4 {
                                0 => b.insert(pos, b"=&%?"[(crate::prng::splitmix(&mut st) % 4) as usize]),
                                1 => {
                                    b.remove(pos);
                                }
                                2 => b[pos] = b"=&%# +"[(crate::prng::splitmix(&mut st) % 6) as usize],
                                _ => b.truncate(pos.max(20)),
                            }
                        }
                        let mut t = String::from_utf8_lossy(&b).to_string();
                        if !t.ends_with("\r\n") {
                            t.push_str(" HTTP/1.1\r\nHost: x\r\n");
                        }
                        t
                    }
                    0 => "BLAH BLAH BLAH\r\n".to_string(),
                    1 => format!("GET /announce?info_hash={} HTTP/1.1\r\nX-Pad: {}\r\n", pct(&info_hash(1), false), "p".repeat(2100)),
                    2 => format!("GET /announce?info_hash={}&peer_id={}&port=1&uploaded=0&downloaded=0&left=1 HTTP/1.1\r\n", pct(&info_hash(1)[..19], false), pct(&peer_id(1), false)),
                    3 => "GET /status HTTP/1.1\r\n".to_string(),
                    4 => format!("GET /announce?info_hash={}&peer_id={}&uploaded=0&downloaded=0&left=1 HTTP/1.1\r\n", pct(&info_hash(1), false), pct(&peer_id(1), false)),
                    5 => "POST /announce HTTP/1.1\r\nContent-Length: 0\r\n".to_string(),
                    6 => (0..60).map(|_| (crate::prng::splitmix(&mut st) & 0x7f) as u8 as char).collect::<String>() + "\r\n",
                    _ => enc_announce(250, 1, 1, None, 1, 1, 0, other_ip),
                };
                let _ = &valid;
                (t, if kind % 16 == 7 { 255 } else { 0 }, vec![], None)
            }
            _ => unreachable!(),
        };
        let mut full = text;
        if scn.behind_proxy && hdr != 255 {
            let (h, _) = forwarded(hdr, req_ip, other_ip);
            full.push_str(&h);
        }
        full.push_str("\r\n");
        let bytes = full.into_bytes();
        // a request that does not fit the 2048-byte request buffer is not an accepted request
        let req = if bytes.len() > 2048 { None } else { req };
        let s = stream.as_mut().unwrap();
        // idle rule: the connection must still be usable unless it has been idle for max_connection_idle
        let idle_ok = last_reply_ns.map_or(true, |t| engine::now().saturating_sub(t) + 1_500_000_000 < scn.max_connection_idle as u64 * 1_000_000_000);
        let inv = engine::seq();
        let t_sent = engine::now();
        // write in segments
        let mut cuts: Vec<usize> = segs.iter().map(|x| *x as usize % bytes.len().max(1)).filter(|x| *x > 0).collect();
        cuts.sort();
        cuts.dedup();
        cuts.push(bytes.len());
        let mut off = 0;
        let mut write_err = None;
        let mut did_reset = false;
        for cut in cuts {
            let mut end = cut;
            if let Some(a) = reset_after {
                if (a as usize) < end && (a as usize) >= off {
                    end = (a as usize).max(off);
                    if end > off {
                        let _ = s.write(&bytes[off..end]);
                    }
                    s.reset();
                    did_reset = true;
                    break;
                }
            }
            if let Err(e) = s.write(&bytes[off..end]) {
                write_err = Some(e);
                break;
            }
            off = end;
            engine::yield_now();
            if cut != bytes.len() {
                thread::sleep(Duration::from_micros(200));
            }
        }
        if did_reset {
            reset_after = None;
            stream = None;
            buf.clear();
            if let Some(req) = req {
                // the request may or may not have been handled: excused, and its torrent becomes unpredictable
                col.lock().unwrap().obs.push(Obs { conn: idx, inv, ret: u64::MAX, t_sent_ns: t_sent, t_done_ns: engine::now(), req, res: Err(("client-reset".into(), "client reset mid-request".into())), excused: true });
            }
            continue;
        }
        let res: Result<Reply, (String, String)> = match write_err {
            Some(e) => Err(("connection-stays-usable".into(), format!("writing the request failed: {} (idle rule satisfied: {})", e, idle_ok))),
            None => match &req {
                None => {
                    // malformed request: the tracker may answer nothing, close, or (proxy header missing) die
                    // (whether such a request is answered is not part of the property; a mutated request may even be valid)
                    let _ = s.read(65536, 1_500_000_000);
                    stream = None;
                    buf.clear();
                    continue;
                }
                Some(_) => read_response(s, &mut buf, c.slow_read).and_then(|f| decode_reply(&f.body, fam)),
            },
        };
        let ret = engine::seq();
        let failed = res.is_err();
        if failed && !idle_ok {
            // idle connections may be closed by the cleaner: reconnect and do not judge
            stream = None;
            buf.clear();
            continue;
        }
        if let Some(req) = req {
            col.lock().unwrap().obs.push(Obs { conn: idx, inv, ret, t_sent_ns: t_sent, t_done_ns: engine::now(), req, res, excused: excused_conn && failed });
        }
        last_reply_ns = Some(engine::now());
        if failed || !scn.keep_alive {
            if !failed && !scn.keep_alive {
                // without keep-alive the tracker closes after one reply: nothing may follow
                match stream.as_ref().unwrap().read(64, 500_000_000) {
                    Ok(v) if !v.is_empty() => col.lock().unwrap().unexpected.push((idx, format!("{} extra bytes after the reply on a non-keep-alive connection", v.len()))),
                    _ => {}
                }
            }
            stream = None;
            buf.clear();
        }
    }
    // nothing unsolicited may be pending on a kept-alive connection
    if let Some(s) = &stream {
        if !buf.is_empty() {
            col.lock().unwrap().unexpected.push((idx, format!("{} unsolicited bytes buffered at the end of the script", buf.len())));
        } else if let Ok(v) = s.read(64, 300_000_000) {
            if !v.is_empty() {
                col.lock().unwrap().unexpected.push((idx, format!("{} unsolicited bytes at the end of the script", v.len())));
            }
        }
    }
}

fn build_config(scn: &Scn, dir: &std::path::Path) -> Config {
    let mut c = Config::default();
    c.privileges.drop_privileges = scn.drop_priv;
    c.metrics.run_prometheus_endpoint = scn.prometheus;
    if scn.torrent_count_update_interval > 0 {
        c.metrics.torrent_count_update_interval = scn.torrent_count_update_interval;
    }
    c.socket_workers = scn.socket_workers.max(1) as usize;
    c.swarm_workers = scn.swarm_workers.max(1) as usize;
    match scn.layout % 4 {
        0 => {}
        1 => c.network.use_ipv6 = false,
        2 => c.network.use_ipv4 = false,
        _ => {
            c.network.use_ipv4 = false;
            c.network.set_only_ipv6 = false;
        }
    }
    c.network.keep_alive = scn.keep_alive;
    c.network.runs_behind_reverse_proxy = scn.behind_proxy;
    c.network.reverse_proxy_ip_header_name = HEADER_NAME.into();
    c.protocol.max_peers = scn.max_peers;
    c.protocol.max_scrape_torrents = scn.max_scrape_torrents;
    c.cleaning.max_peer_age = scn.max_peer_age;
    c.cleaning.torrent_cleaning_interval = scn.cleaning_interval.max(1);
    c.cleaning.connection_cleaning_interval = scn.conn_cleaning_interval.max(1);
    c.cleaning.max_connection_idle = scn.max_connection_idle;
    c.access_list.mode = match scn.access_mode {
        1 => aquatic_common::access_list::AccessListMode::Allow,
        2 => aquatic_common::access_list::AccessListMode::Deny,
        _ => aquatic_common::access_list::AccessListMode::Off,
    };
    c.access_list.path = dir.join("access-list.txt");
    c
}

fn list_file(list: &[u8], bad: bool) -> String {
    let mut s = String::new();
    for t in list {
        for b in info_hash(*t) {
            s.push_str(&format!("{:02x}", b));
        }
        s.push('\n');
    }
    if bad {
        s.push_str("nope\n");
    }
    s
}

fn sim_root(scn: Arc<Scn>, col: Arc<Mutex<Collected>>) {
    let dir = fs::scratch_dir();
    let config = build_config(&scn, &dir);
    std::fs::write(&config.access_list.path, list_file(&scn.access_list, false)).unwrap();
    let mut plan = fault::Plan::default();
    let mut sig_close = None;
    for f in &scn.faults {
        match f {
            PF::Panic { thread, n } => plan.panic_at.push((thread.clone(), *n)),
            PF::PanicAt { thread, ms } => plan.panic_at_time.push((thread.clone(), ms * 1_000_000)),
            PF::BindFail { thread } => plan.fail_bind.push(thread.clone()),
            PF::EndLoop { thread, n } => plan.end_loop_at.push((thread.clone(), *n)),
            PF::SignalsClose { ms } => sig_close = Some(*ms),
            PF::SpawnFail { thread } => plan.fail_spawn.push(thread.clone()),
        }
    }
    if scn.early {
        // a slow start (think of a large access-list file): the thread running run() stalls for 3 ms at one of its first seam calls
        plan.stall_at.push(("tracker-run".into(), 1 + scn.sched_seed % 10, 3_000_000));
    }
    fault::set_plan(plan);
    aquatic_verif_rt::net::tcp::set_accept_faults(scn.accept_faults.iter().copied().collect());
    tcp::set_pipe_caps(1 << 20, scn.s2c_cap.max(16) as usize);
    let col2 = col.clone();
    let _run = thread::spawn_named("tracker-run", move || {
        let r = aquatic_http::run(config);
        let t = engine::now();
        col2.lock().unwrap().run_returned = Some((t, r.map_err(|e| format!("{:#}", e))));
    });
    if !scn.early {
        thread::sleep(Duration::from_millis(5));
    }
    let mut hs = Vec::new();
    for i in 0..scn.conns.len() {
        let (s, c) = (scn.clone(), col.clone());
        hs.push(thread::spawn_named(&format!("client-{}", i), move || client_main(i, s, c)));
    }
    {
        let (s, c) = (scn.clone(), col.clone());
        let path = dir.join("access-list.txt");
        hs.push(thread::spawn_named("operator", move || {
            let mut ops: Vec<(u64, Option<(Vec<u8>, bool)>)> = s.reloads.iter().map(|(at, l, bad)| (*at as u64, Some((l.clone(), *bad)))).collect();
            if let Some(ms) = sig_close {
                ops.push((ms, None));
            }
            ops.sort_by_key(|o| o.0);
            for (at, o) in ops {
                let now_ms = engine::now() / 1_000_000;
                if at > now_ms {
                    thread::sleep(Duration::from_millis(at - now_ms));
                }
                match o {
                    Some((l, bad)) => {
                        std::fs::write(&path, list_file(&l, bad)).unwrap();
                        c.lock().unwrap().reload_times.push((engine::now(), engine::seq()));
                        signal::raise(10);
                    }
                    None => signal::close(),
                }
            }
        }));
    }
    for h in hs {
        let _ = h.join();
    }
    let now_ms = engine::now() / 1_000_000;
    if scn.duration_ms > now_ms {
        thread::sleep(Duration::from_millis(scn.duration_ms - now_ms));
    }
    col.lock().unwrap().end_ns = engine::now();
}

// ------------------------------------------------------------------ per-torrent linearizability

#[derive(Clone, Debug)]
enum Lk {
    Ann { key: Key, stopped: bool, seeder: bool, limit: usize, complete: i64, incomplete: i64, peers: Vec<Key>, pid: H20 },
    Scr { complete: i64, incomplete: i64 },
}
#[derive(Clone, Debug)]
struct Lop {
    inv: u64,
    ret: u64,
    k: Lk,
}
type TState = Vec<(Key, bool)>;

fn lin_apply(st: &mut TState, k: &Lk) -> bool {
    match k {
        Lk::Ann { key, stopped, seeder, limit, complete, incomplete, peers, .. } => {
            st.retain(|(k, _)| k != key);
            let s = st.iter().filter(|(_, s)| *s).count() as i64;
            let l = st.len() as i64 - s;
            let cands: Vec<Key> = st.iter().map(|(k, _)| *k).collect();
            let ok = *complete == s && *incomplete == l && check_peer_list(peers, &cands, key, *limit).is_ok();
            if !*stopped {
                st.push((*key, *seeder));
            }
            ok
        }
        Lk::Scr { complete, incomplete } => {
            let s = st.iter().filter(|(_, s)| *s).count() as i64;
            *complete == s && *incomplete == st.len() as i64 - s
        }
    }
}

fn lin_check(ops: &[Lop]) -> bool {
    fn go(ops: &[Lop], done: u128, st: &TState, memo: &mut HashSet<(u128, Vec<(Key, bool)>)>, budget: &mut u64) -> bool {
        if done.count_ones() as usize == ops.len() {
            return true;
        }
        if *budget == 0 {
            return true;
        }
        *budget -= 1;
        let mut canon = st.clone();
        canon.sort();
        if !memo.insert((done, canon)) {
            return false;
        }
        let min_ret = ops.iter().enumerate().filter(|(i, _)| done & (1u128 << i) == 0).map(|(_, o)| o.ret).min().unwrap();
        for (i, o) in ops.iter().enumerate() {
            if done & (1u128 << i) != 0 || o.inv > min_ret {
                continue;
            }
            let mut st2 = st.clone();
            if lin_apply(&mut st2, &o.k) && go(ops, done | (1u128 << i), &st2, memo, budget) {
                return true;
            }
        }
        false
    }
    if ops.len() > 120 {
        return true;
    }
    let mut memo = HashSet::new();
    let mut budget = 400_000u64;
    go(ops, 0, &Vec::new(), &mut memo, &mut budget)
}

pub struct HttpSys;

impl Harness for HttpSys {
    type Scn = Scn;
    const NAME: &'static str = "http_sys";
    const MINIMISE_BUDGET: u64 = 300;

    fn generate(seed: u64, tier: Tier, prop: &str) -> Scn {
        let mut r = Prng::stream(seed, "scenario");
        // knobs added later draw from a stream of their own so that older seeds keep their scenarios
        let mut r2 = Prng::stream(seed, "scenario-metrics");
        let prometheus = r2.chance(if prop == "C19" { 500 } else { 350 });
        let torrent_count_update_interval = *r2.pick(&[1u64, 2, 10]);
        let accept_faults: Vec<u64> = if prop != "C19" && r2.chance(150) { (0..r2.range(1, 3)).map(|_| r2.range(1, 8)).collect() } else { Vec::new() };
        let socket_workers = r.range(1, 3) as u8;
        let swarm_workers = r.range(1, 3) as u8;
        let layout = *r.pick(&[0u8, 0, 1, 2, 3, 3]);
        let c18 = prop == "C18";
        let c19 = prop == "C19";
        let c12 = prop == "C12";
        let keep_alive = r.chance(700);
        let behind_proxy = if prop == "C03" { r.chance(600) } else { r.chance(250) };
        let max_peers = if c18 { *r.pick(&[1usize, 50, 200, 219, 220, 700]) } else { *r.pick(&[1usize, 2, 5, 50]) };
        let max_scrape_torrents = if c18 { *r.pick(&[1usize, 28, 57, 58, 100]) } else { *r.pick(&[1usize, 2, 3, 100]) };
        let access_mode = if prop == "C11" { r.range(1, 2) as u8 } else if r.chance(200) { r.range(1, 2) as u8 } else { 0 };
        let access_list: Vec<u8> = (0..r.below(4)).map(|_| r.below(6) as u8).collect();
        let faulty = !c19 && !c18 && r.chance(350);
        let n_conns = if c18 { 1 } else { r.range(2, if tier == Tier::Quick { 5 } else { 6 }) as usize };
        let n_torrents = r.range(1, 5) as u8;
        let mut conns = Vec::new();
        for i in 0..n_conns {
            let v6 = match layout % 4 {
                1 => false,
                2 => true,
                3 => r.chance(350),
                _ => r.chance(400),
            } || (behind_proxy && r.chance(300));
            let n_ops = r.range(3, if tier == Tier::Quick { 12 } else { 24 }) as usize;
            let mut script = Vec::new();
            for _ in 0..n_ops {
                let seg = |r: &mut Prng| -> Vec<u16> {
                    match r.below(5) {
                        0 => vec![],
                        1 => vec![r.below(400) as u16],
                        2 => (0..r.range(2, 6)).map(|_| r.below(400) as u16).collect(),
                        3 => vec![1, 2, 3, 4, 5, 6, 7, 8],
                        // cut inside the final CRLFCRLF
                        _ => vec![65535, 65534, 65533].into_iter().take(r.range(1, 3) as usize).collect(),
                    }
                };
                let op = match r.weighted(&[12, 52, 18, if faulty || c12 { 10 } else { 1 }, if faulty { 4 } else { 0 }, 4]) {
                    0 => HOp::Sleep { ms: *r.pick(&[1u32, 50, 1000, 2500]) },
                    1 => HOp::Ann {
                        t: r.below(n_torrents as u64) as u8,
                        ev: if r.chance(180) { 3 } else { r.below(3) as u8 },
                        left: *r.pick(&[0u64, 0, 1, 500]),
                        want: *r.pick(&[None, Some(0), Some(1), Some(2), Some(50), Some(100000)]),
                        port: *r.pick(&[1u16, 1000, 1001, 65535]),
                        pid: r.below(6) as u8,
                        style: r.below(64) as u8,
                        seg: seg(&mut r),
                        hdr: r.below(16) as u8,
                        via: if behind_proxy && r.chance(400) { r.range(1, 2) as u8 } else { 0 },
                    },
                    2 => {
                        let n = *r.pick(&[1usize, 1, 2, 3, 5]);
                        HOp::Scr { ts: (0..n).map(|_| r.below(n_torrents as u64 + 2) as u8).collect(), seg: seg(&mut r), hdr: r.below(16) as u8 }
                    }
                    3 => HOp::Bad { kind: if c12 { r.below(16) as u8 } else { *r.pick(&[0u8, 1, 2, 3, 4, 5, 6, 8, 9, 10, 11, 12, 13]) }, r: r.next_u64() },
                    4 => HOp::ResetMid { after: r.below(200) as u16 },
                    _ => HOp::Close,
                };
                // the deliberate missing-header panic (Bad kind 7) only makes sense behind a proxy
                if let HOp::Bad { kind, .. } = &op {
                    if kind % 16 == 7 && !behind_proxy {
                        continue;
                    }
                }
                script.push(op);
            }
            conns.push(Conn {
                v6,
                ac: r.below(2) as u8,
                h: 10 + i as u16,
                sport: 2000 + i as u16,
                pick: if r.chance(400) { r.range(1, 3) as u8 } else { 0 },
                write_caps: if faulty && r.chance(300) { (0..r.range(1, 6)).map(|_| r.range(1, 60) as u16).collect() } else { vec![] },
                slow_read: if faulty && r.chance(200) { r.range(1, 40) as u16 } else { 0 },
                script,
            });
        }
        if c18 {
            // worst accepted case: swarm larger than max_peers in the wider family, numwant absent;
            // the longest scrape that fits the 2048-byte request buffer (31 request bytes per hash)
            let v6 = layout % 4 != 1;
            let swarm = (max_peers + 4).min(720);
            let mut script = Vec::new();
            for p in 0..swarm {
                script.push(HOp::Ann { t: 0, ev: 1, left: 1, want: Some(1), port: 1 + p as u16, pid: 1, style: 0, seg: vec![], hdr: 0, via: 0 });
            }
            script.push(HOp::Ann { t: 0, ev: 1, left: 1, want: None, port: 60000, pid: 2, style: 0, seg: vec![], hdr: 0, via: 0 });
            script.push(HOp::Ann { t: 0, ev: 1, left: 1, want: Some(100000), port: 60002, pid: 2, style: 0, seg: vec![], hdr: 0, via: 0 });
            let n_hashes = *r.pick(&[28usize, 57, 58, 60, 64]);
            script.push(HOp::Scr { ts: (0..n_hashes).map(|i| i as u8).collect(), seg: vec![], hdr: 0 });
            script.push(HOp::Ann { t: 1, ev: 1, left: 1, want: None, port: 60001, pid: 2, style: 0, seg: vec![], hdr: 0, via: 0 });
            conns = vec![Conn { v6, ac: 0, h: 10, sport: 2000, pick: 0, write_caps: vec![], slow_read: 0, script }];
        }
        let mut faults = Vec::new();
        if c19 {
            let mut threads: Vec<String> = (1..=socket_workers).map(|i| format!("socket-{:02}", i)).collect();
            threads.extend((1..=swarm_workers).map(|i| format!("swarm-{:02}", i)));
            threads.push("signals".into());
            if prometheus {
                threads.push("prometheus".into());
            }
            if r.chance(850) {
                let th = r.pick(&threads).clone();
                let f = match r.below(10) {
                    0 if th.starts_with("socket") || th == "prometheus" => PF::BindFail { thread: th },
                    1 if th == "prometheus" => PF::EndLoop { thread: th, n: *r.pick(&[1u64, 2, 3, 5]) },
                    // (a glommio accept stream never ends by itself, so there is no "loop ends" death for socket workers)
                    2 if th == "signals" => PF::SignalsClose { ms: r.range(0, 20000) },
                    3 => PF::SpawnFail { thread: th },
                    4 | 5 => PF::PanicAt { thread: th, ms: r.range(0, 20000) },
                    _ => PF::Panic { thread: th, n: *r.pick(&[1u64, 2, 3, 5, 10, 30, 100, 300, 1000]) },
                };
                faults.push(f);
            }
        }
        // a kept-alive connection in steady use: one kind of request every few seconds, each gap shorter than
        // max_connection_idle, the whole longer than max_connection_idle plus a cleaning tick
        let steady = keep_alive && !c18 && !c19 && r.chance(200);
        if steady {
            let kind = r.below(4);
            let t = r.below(n_torrents as u64) as u8;
            let mut script = Vec::new();
            for k in 0..r.range(5, 8) {
                script.push(match if kind == 3 { k % 3 } else { kind } {
                    0 => HOp::Scr { ts: vec![t], seg: vec![], hdr: 0 },
                    1 => HOp::Ann { t, ev: 0, left: 1, want: Some(2), port: 1000, pid: 5, style: 0, seg: vec![], hdr: 0, via: 0 },
                    // a torrent the access list may forbid
                    _ => HOp::Ann { t: r.below(6) as u8, ev: 0, left: 1, want: Some(2), port: 1000, pid: 5, style: 0, seg: vec![], hdr: 0, via: 0 },
                });
                script.push(HOp::Sleep { ms: *r.pick(&[1000u32, 2500, 3000]) });
            }
            let i = conns.len();
            conns.push(Conn { v6: layout % 4 == 2, ac: 0, h: 10 + i as u16, sport: 2000 + i as u16, pick: 0, write_caps: vec![], slow_read: 0, script });
        }
        // expiry probe: peers on a torrent of their own, one re-announcing every second, one announcing once, both scraping
        let probe: Option<(u32, u64)> = if !c18 && !c19 && !c12 && access_mode == 0 && r.chance(if prop == "C07" || prop == "C10" { 300 } else { 60 }) {
            Some(*r.pick(&[(4u32, 1u64), (4, 2), (6, 2), (4, 6), (6, 6)]))
        } else {
            None
        };
        if let Some((age, interval)) = probe {
            let v6 = match layout % 4 {
                1 => false,
                2 => true,
                _ => r.chance(500),
            };
            let span = 2 * age as u64 + interval + 5;
            let mut s1 = Vec::new();
            for k in 0..span {
                if k < age as u64 + 3 {
                    s1.push(HOp::Ann { t: 7, ev: 0, left: 1, want: Some(5), port: 7001, pid: 4, style: 0, seg: vec![], hdr: 0, via: 0 });
                }
                s1.push(HOp::Scr { ts: vec![7], seg: vec![], hdr: 0 });
                s1.push(HOp::Sleep { ms: 1000 });
            }
            let mut s2 = vec![HOp::Ann { t: 7, ev: 0, left: 0, want: Some(5), port: 7002, pid: 5, style: 0, seg: vec![], hdr: 0, via: 0 }];
            for _ in 0..span {
                s2.push(HOp::Sleep { ms: 1000 });
                s2.push(HOp::Scr { ts: vec![7], seg: vec![], hdr: 0 });
            }
            for (j, script) in [s1, s2].into_iter().enumerate() {
                let i = conns.len();
                conns.push(Conn { v6, ac: 0, h: 100 + j as u16, sport: 2000 + i as u16, pick: 0, write_caps: vec![], slow_read: 0, script });
            }
        }
        let reloads = if access_mode != 0 { (0..r.below(3)).map(|_| (r.range(500, 20000) as u32, (0..r.below(4)).map(|_| r.below(6) as u8).collect(), r.chance(250))).collect() } else { vec![] };
        Scn {
            socket_workers,
            swarm_workers,
            layout,
            keep_alive,
            max_peers,
            max_scrape_torrents,
            max_peer_age: probe.map_or(1800, |p| p.0),
            cleaning_interval: probe.map_or(*r.pick(&[5u64, 30]), |p| p.1),
            conn_cleaning_interval: if steady { 2 } else { *r.pick(&[2u64, 10, 60]) },
            max_connection_idle: if steady { 5 } else if r.chance(250) { *r.pick(&[2u32, 5]) } else { 180 },
            behind_proxy,
            access_mode,
            access_list,
            reloads,
            s2c_cap: if faulty && r.chance(300) { r.range(16, 200) as u32 } else { 1 << 20 },
            sched_strategy: r.below(4) as u8,
            sched_seed: r.next_u64(),
            entropy_seed: r.next_u64(),
            yield_permille: *r.pick(&[0u32, 200, 700]),
            duration_ms: if c19 { 40_000 } else if steady { 30_000 } else if let Some((a, i)) = probe { (2 * a as u64 + i + 9) * 1000 } else { r.range(8_000, 30_000) },
            conns,
            faults,
            early: !c19 && r.chance(if prop == "C11" { 300 } else { 100 }),
            probe,
            drop_priv: r.chance(300),
            prometheus,
            torrent_count_update_interval,
            accept_faults,
        }
    }

    fn execute(scn: &Scn, prop: &str, stats: &mut Stats) -> Outcome {
        aquatic_verif_rt::reset_all(scn.entropy_seed);
        crate::recorder::reset();
        foldhash::verif_reset_seed_counter();
        glommio::sim_reset();
        let col = Arc::new(Mutex::new(Collected::default()));
        let scn_arc = Arc::new(scn.clone());
        let cfg = EngineCfg {
            sched_seed: scn.sched_seed,
            strategy: match scn.sched_strategy % 4 {
                0 => Strategy::Random,
                1 => Strategy::Sticky(500),
                2 => Strategy::Sticky(950),
                _ => Strategy::Pct { depth: 3, horizon: 5000 },
            },
            max_handoffs: 3_000_000,
            trace: std::env::var_os("VERIF_TRACE").is_some(),
            yield_permille: scn.yield_permille,
            record_clock: false,
            wall_limit_s: 120,
            record_events: false,
        };
        let (c2, s2) = (col.clone(), scn_arc.clone());
        let report = engine::run(cfg, move || sim_root(s2, c2));
        let fired_at = fault::fired_at();
        for (k, v) in fault::fired() {
            stats.fault(k, v);
        }
        for (k, v) in tcp::fired() {
            stats.fault(k, v);
        }
        stats.handoffs += report.handoffs;
        stats.sim_seconds += report.now_ns / 1_000_000_000;
        let col = std::mem::take(&mut *col.lock().unwrap());
        let mut violations: Vec<Violation> = Vec::new();
        if report.overrun {
            stats.probe("engine-step-budget-exhausted");
            return Outcome { violations, fingerprint: report.log_hash, signature: None };
        }
        if let Some(d) = &report.deadlock {
            violations.push(Violation::new(prop, "engine-deadlock", "engine-deadlock", format!("all simulated threads blocked without a timer: {:?}", d)));
            return Outcome { violations, fingerprint: report.log_hash, signature: None };
        }
    for (name, len, used) in aquatic_verif_rt::alloc::take_excess() {
        if !(name.starts_with("client") || name == "operator" || name == "root" || name == "net") {
            violations.push(Violation::new("C12", "allocation-bounded-by-input", "allocation-bound", format!("tracker thread {} allocated {} bytes while handling a {}-byte network input (> 64 x input + 1 MiB)", name, used, len)));
        }
    }
    let (ml, mu) = aquatic_verif_rt::alloc::take_max();
    if mu > 0 {
        stats.probe_n("largest-allocation-per-input-kib", mu / 1024);
        let _ = ml;
    }
        // ---- tracker-thread panics that were not injected
        let injected: BTreeSet<String> = fired_at.iter().filter(|f| f.1 == "panic").map(|f| f.0.clone()).collect();
        let mut unplanned_death = false;
        for (name, msg) in &report.panics {
            if msg.contains("injected worker death") || injected.contains(name) {
                continue;
            }
            if name.starts_with("client") || name == "operator" || name == "root" {
                violations.push(Violation::new(prop, "harness-thread-panic", "harness-thread-panic", format!("harness thread {} panicked: {}", name, msg)));
                continue;
            }
            unplanned_death = true;
            let sig = if msg.contains("no corresponding IP header") { "http-proxy-header-missing-panic" } else if msg.contains("overflow") { "arithmetic-overflow" } else { "tracker-thread-panic" };
            violations.push(Violation::new("C12", "no-panic-on-network-input", sig, format!("tracker thread {} panicked: {}", name, msg)));
            // whatever property this run samples, a tracker that dies of its own accord no longer serves anybody
            if prop != "C12" && scn.faults.is_empty() {
                violations.push(Violation::new(prop, "tracker-stays-up", "tracker-thread-panic", format!("tracker thread {} panicked without an injected fault: {}", name, msg)));
            }
        }
        // ---- C19
        {
            let mut death: Option<(u64, String)> = None;
            for (th, kind, t) in &fired_at {
                if *kind == "panic" || *kind == "bind-fail" || *kind == "end-loop" {
                    if death.as_ref().map_or(true, |d| *t < d.0) {
                        death = Some((*t, format!("{} ({})", th, kind)));
                    }
                }
            }
            for f in &scn.faults {
                match f {
                    PF::SignalsClose { ms } if ms * 1_000_000 <= col.end_ns => {
                        if death.as_ref().map_or(true, |d| ms * 1_000_000 < d.0) {
                            death = Some((ms * 1_000_000, "signals (iterator closed)".into()));
                        }
                    }
                    PF::SpawnFail { thread } if thread != "prometheus" || scn.prometheus => death = Some((0, format!("{} (spawn failed)", thread))),
                    _ => {}
                }
            }
            if unplanned_death && death.is_none() {
                death = Some((col.end_ns, "unplanned panic".into()));
            }
            match (&death, &col.run_returned) {
                (None, Some((t, r))) => violations.push(Violation::new("C19", "run-keeps-running-without-death", "run-returned-spontaneously", format!("no worker died, but run() returned at {} ms with {:?}", t / 1_000_000, r))),
                (Some((d, who)), None) => {
                    if col.end_ns >= d + 10_500_000_000 {
                        violations.push(Violation::new("C19", "dead-worker-ends-run", "run-did-not-return", format!("{} died at {} ms but run() had not returned by {} ms", who, d / 1_000_000, col.end_ns / 1_000_000)));
                    } else {
                        stats.probe("death-too-late-to-judge");
                    }
                }
                (Some((d, who)), Some((t, r))) => {
                    stats.probe("worker-death-observed");
                if who.starts_with("prometheus") {
                    stats.probe("metrics-worker-death-observed");
                }
                    if r.is_ok() {
                        violations.push(Violation::new("C19", "dead-worker-ends-run", "run-returned-ok", format!("{} died at {} ms and run() returned Ok(())", who, d / 1_000_000)));
                    } else if *t > d + 10_000_000_000 {
                        violations.push(Violation::new("C19", "dead-worker-ends-run", "run-returned-late", format!("{} died at {} ms but run() returned only at {} ms", who, d / 1_000_000, t / 1_000_000)));
                    }
                }
                (None, None) => {}
            }
            if death.is_some() {
                return Outcome { violations, fingerprint: report.log_hash, signature: Some(report.sig_hash) };
            }
        }
        // ---- framing, one reply per request, liveness (C16); buffers (C18)
        let mut fp = report.log_hash;
        let mut sig = report.sig_hash;
        let fold = |h: &mut u64, x: u64| *h = (*h ^ x).wrapping_mul(0x100000001b3).rotate_left(9);
        for (c, what) in &col.unexpected {
            violations.push(Violation::new("C16", "exactly-one-reply-per-request", "unsolicited-bytes", format!("connection #{}: {}", c, what)));
        }
        let mut tainted: BTreeSet<(Fam, u8)> = BTreeSet::new();
        let mut n_ok = 0u64;
        for o in &col.obs {
            stats.evaluations += 1;
            let fam_of_req = |o: &Obs| match &o.req {
                Req::Ann { key, .. } => Fam::of(&key.0),
                Req::Scr { fam, .. } => *fam,
            };
            match &o.res {
                Ok(r) => {
                    n_ok += 1;
                    fold(&mut fp, match r {
                        Reply::Announce { complete, incomplete, peers, .. } => (*complete as u64) << 20 | (*incomplete as u64) << 8 | peers.len() as u64,
                        Reply::Scrape { files } => files.len() as u64 + 7,
                        Reply::Failure { .. } => 3,
                    });
                }
                Err((check, detail)) => {
                    // which torrents become unpredictable
                    match &o.req {
                        Req::Ann { t, .. } => {
                            tainted.insert((fam_of_req(o), *t));
                        }
                        Req::Scr { .. } => {}
                    }
                    if o.excused {
                        stats.probe("exchange-excused-by-injected-fault");
                        if check == "reply-framing" && detail.contains("Content-Length says") {
                            // short writes injected: a truncated reply is still the tracker's doing
                            violations.push(Violation::new("C16", "reply-framing", "truncated-under-short-write", format!("connection #{} (tracker-side short writes injected): {}", o.conn, detail)));
                        }
                        continue;
                    }
                    // reply too large for the tracker's buffer?
                    let (props, checkid, sigid): (&[&str], &str, String) = match &o.req {
                        Req::Scr { ts, .. } if check == "one-reply-per-request" && 45 + 11 + 70 * ts.iter().collect::<BTreeSet<_>>().len().min(scn.max_scrape_torrents) + 2 > 4096 => (&["C18", "C16"], "reply-fits-buffer", "scrape-reply-exceeds-buffer".into()),
                        Req::Ann { limit, key, .. } if check == "one-reply-per-request" && 45 + 80 + limit * if key.0.is_ipv4() { 6 } else { 18 } > 4096 => (&["C18", "C16"], "reply-fits-buffer", "announce-reply-exceeds-buffer".into()),
                        _ if check == "one-reply-per-request" => (&["C16", "C18"], "one-reply-per-request", "accepted-request-unanswered".into()),
                        _ => (&["C16"], check.as_str(), check.clone()),
                    };
                    for p in props {
                        violations.push(Violation::new(p, checkid, &sigid, format!("connection #{} request {:?}: {}", o.conn, o.req, detail)));
                    }
                }
            }
        }
        // ---- content: access-list gate, source addresses, one reference tracker (C16, C03, C07, C11)
        if violations.is_empty() {
            let reload_windows: Vec<(u64, u64)> = col.reload_times.iter().map(|(t, _)| (*t, t + 200_000_000)).collect();
            let mut list: BTreeSet<H20> = scn.access_list.iter().map(|t| info_hash(*t)).collect();
            let allowed = |list: &BTreeSet<H20>, ih: &H20| match scn.access_mode {
                1 => list.contains(ih),
                2 => !list.contains(ih),
                _ => true,
            };
            // access list decisions in time order (reload = new list after the window; failures keep the old one)
            let mut reloads: Vec<(u64, Option<BTreeSet<H20>>)> = scn.reloads.iter().map(|(at, l, bad)| (*at as u64 * 1_000_000, if *bad { None } else { Some(l.iter().map(|t| info_hash(*t)).collect()) })).collect();
            reloads.sort_by_key(|r| r.0);
            let mut obs: Vec<&Obs> = col.obs.iter().filter(|o| o.res.is_ok()).collect();
            obs.sort_by_key(|o| o.inv);
            let mut per_torrent: BTreeMap<(Fam, u8), Vec<Lop>> = BTreeMap::new();
            let mut ri = 0;
            let mut ti = 0;
            for o in obs {
                // from the moment a reload may have been applied, torrents whose permission it changes are unpredictable
                // (the next cleaning pass removes the ones it forbids) - also for requests inside the reload's window
                while ti < reloads.len() && reloads[ti].0 <= o.t_sent_ns + 50_000_000 {
                    if let (Some(l), true) = (&reloads[ti].1, scn.access_mode != 0) {
                        let base: BTreeSet<H20> = if ti == 0 { scn.access_list.iter().map(|t| info_hash(*t)).collect() } else { reloads[..ti].iter().rev().find_map(|r| r.1.clone()).unwrap_or_else(|| scn.access_list.iter().map(|t| info_hash(*t)).collect()) };
                        for t in 0..8u8 {
                            if allowed(&base, &info_hash(t)) != allowed(l, &info_hash(t)) {
                                tainted.insert((Fam::V4, t));
                                tainted.insert((Fam::V6, t));
                            }
                        }
                    }
                    ti += 1;
                }
                while ri < reloads.len() && reloads[ri].0 + 200_000_000 < o.t_sent_ns {
                    if let Some(l) = &reloads[ri].1 {
                        if scn.access_mode != 0 {
                            // torrents the new list forbids are removed by the next cleaning pass: unpredictable from here
                            for t in 0..8u8 {
                                if allowed(&list, &info_hash(t)) != allowed(l, &info_hash(t)) {
                                    tainted.insert((Fam::V4, t));
                                    tainted.insert((Fam::V6, t));
                                }
                            }
                            list = l.clone();
                        }
                    }
                    ri += 1;
                }
                let in_window = reload_windows.iter().any(|(a, b)| *a <= o.t_sent_ns + 50_000_000 && o.t_sent_ns <= *b) || (ri < reloads.len() && reloads[ri].0 <= o.t_sent_ns + 50_000_000);
                match (&o.req, o.res.as_ref().unwrap()) {
                    (Req::Ann { t, key, stopped, seeder, limit, pid }, reply) => {
                        let fam = Fam::of(&key.0);
                        let ok = allowed(&list, &info_hash(*t));
                        match reply {
                            Reply::Failure { reason } => {
                                if in_window {
                                    tainted.insert((fam, *t));
                                    continue;
                                }
                                if ok {
                                    violations.push(Violation::new("C11", "permitted-announce-accepted", "permitted-announce-rejected", format!("announce for permitted torrent {} answered with failure {:?}", t, reason)));
                                } else {
                                    stats.probe("announce-forbidden-by-access-list");
                                }
                            }
                            Reply::Announce { complete, incomplete, peers, peers_other_family } => {
                                if in_window {
                                    tainted.insert((fam, *t));
                                    continue;
                                }
                                if !ok {
                                    violations.push(Violation::new("C11", "forbidden-announce-gets-error", "forbidden-announce-accepted", format!("announce for torrent {} which the access list in force forbids was accepted", t)));
                                    continue;
                                }
                                if *peers_other_family > 0 {
                                    violations.push(Violation::new("C03", "peers-same-family", "peers-other-family", format!("announce from {:?} got {} peers of the other family", key, peers_other_family)));
                                }
                                per_torrent.entry((fam, *t)).or_default().push(Lop { inv: o.inv, ret: o.ret, k: Lk::Ann { key: *key, stopped: *stopped, seeder: *seeder, limit: *limit, complete: *complete, incomplete: *incomplete, peers: peers.clone(), pid: peer_id(*pid) } });
                            }
                            Reply::Scrape { .. } => violations.push(Violation::new("C16", "reply-kind", "announce-got-scrape", "announce answered with a scrape reply".into())),
                        }
                    }
                    (Req::Scr { ts, fam }, reply) => match reply {
                        Reply::Scrape { files } => {
                            let taken: Vec<u8> = ts.iter().take(scn.max_scrape_torrents).copied().collect();
                            let want: BTreeSet<H20> = taken.iter().map(|t| info_hash(*t)).collect();
                            let got: BTreeSet<H20> = files.keys().copied().collect();
                            if want != got {
                                let extra = got.difference(&want).count();
                                violations.push(Violation::new("C16", "scrape-first-max-torrents-once", if extra > 0 && scn.swarm_workers > 1 { "scrape-limit-applied-per-swarm-worker" } else { "scrape-set" }, format!("scrape of {:?} with max_scrape_torrents {} ({} swarm workers) lists {} torrents, {} of them outside the first max_scrape_torrents requested", ts, scn.max_scrape_torrents, scn.swarm_workers, got.len(), extra)));
                                continue;
                            }
                            for t in taken.iter().collect::<BTreeSet<_>>() {
                                let (c, i) = files[&info_hash(*t)];
                                per_torrent.entry((*fam, *t)).or_default().push(Lop { inv: o.inv, ret: o.ret, k: Lk::Scr { complete: c, incomplete: i } });
                            }
                        }
                        other => violations.push(Violation::new("C16", "reply-kind", "scrape-reply-kind", format!("scrape answered with {:?}", other))),
                    },
                }
            }
            // ---- expiry probe (C07, C10): scrape counts of torrent 7 against deadline windows
            if let (true, Some((age, interval))) = (violations.is_empty(), scn.probe) {
                let (age_ns, int_ns) = (age as u64 * 1_000_000_000, interval * 1_000_000_000);
                // per probe peer: (sent, done) of every accepted announce
                let mut anns: BTreeMap<Key, Vec<(u64, u64, u64, u64)>> = BTreeMap::new();
                for o in col.obs.iter().filter(|o| !o.excused) {
                    if let (Req::Ann { t: 7, key, stopped: false, .. }, Ok(Reply::Announce { .. })) = (&o.req, &o.res) {
                        anns.entry(*key).or_default().push((o.t_sent_ns, o.t_done_ns, o.inv, o.ret));
                    }
                }
                for o in col.obs.iter().filter(|o| !o.excused) {
                    if let (Req::Scr { ts, .. }, Ok(Reply::Scrape { files })) = (&o.req, &o.res) {
                        if ts.as_slice() != [7] {
                            continue;
                        }
                        let got = files.get(&info_hash(7)).map_or(0, |x| x.0.max(0) + x.1.max(0));
                        let (mut lower, mut upper) = (0i64, 0i64);
                        for v in anns.values() {
                            // the deadline is the handling worker's time sample (whole seconds, refreshed once a second) plus the
                            // maximum age: 2 s of slack on the early side; gone by the first pass at or after it: one interval + 1.5 s
                            // (order within one simulated instant: by the global event sequence numbers of invoke / return)
                            let alive = v.iter().filter(|a| a.3 < o.inv).last().map_or(false, |a| o.t_done_ns + 2_000_000_000 < a.0 + age_ns);
                            let seen = v.iter().any(|a| a.2 < o.ret);
                            let gone = v.iter().filter(|a| a.2 < o.ret).all(|a| o.t_sent_ns > a.1 + age_ns + int_ns + 1_500_000_000);
                            if alive {
                                lower += 1;
                            }
                            if seen && !gone {
                                upper += 1;
                            }
                        }
                        stats.evaluations += 1;
                        if got < lower {
                            stats.probe("expiry-probe-judged");
                            for p in ["C07", "C10"] {
                                violations.push(Violation::new(p, "peer-kept-until-deadline", "peer-gone-before-deadline", format!("scrape of the probe torrent sent at {} ms counts {} peers, but {} announced less than max_peer_age - 2 s = {} s before it (max_peer_age {} s, cleaning every {} s, {} socket x {} swarm workers)", o.t_sent_ns / 1_000_000, got, lower, age - 2, age, interval, scn.socket_workers, scn.swarm_workers)));
                            }
                            break;
                        } else if got > upper {
                            for p in ["C07", "C10"] {
                                violations.push(Violation::new(p, "peer-gone-after-deadline", "peer-survives-deadline-and-pass", format!("scrape of the probe torrent sent at {} ms counts {} peers, but only {} announced within the last max_peer_age + cleaning interval + 1.5 s (max_peer_age {} s, cleaning every {} s, layout {}, {} socket x {} swarm workers)", o.t_sent_ns / 1_000_000, got, upper, age, interval, scn.layout % 4, scn.socket_workers, scn.swarm_workers)));
                            }
                            break;
                        } else {
                            stats.probe(if upper == 0 { "expiry-probe-all-gone-confirmed" } else if lower > 0 { "expiry-probe-alive-confirmed" } else { "expiry-probe-inside-window" });
                        }
                    }
                }
            }
            if violations.is_empty() && scn.probe.is_none() {
                for (k, ops) in &per_torrent {
                    if tainted.contains(k) {
                        stats.probe("torrent-history-unpredictable-skipped");
                        continue;
                    }
                    stats.probe("torrent-history-checked");
                    if ops.iter().any(|a| ops.iter().any(|b| a.inv < b.ret && b.inv < a.ret && a.inv != b.inv)) {
                        stats.probe("overlapping-requests-on-one-torrent");
                    }
                    if !lin_check(ops) {
                        let lines: Vec<String> = ops.iter().map(|o| format!("[{}..{}] {:?}", o.inv, o.ret, o.k)).collect();
                        let detail = format!("replies for torrent {} ({:?}) are not those of one reference tracker under any order consistent with request/reply times ({} socket x {} swarm workers, proxy={}): {}", k.1, k.0, scn.socket_workers, scn.swarm_workers, scn.behind_proxy, lines.join("; "));
                        for p in ["C16", "C03", "C07"] {
                            violations.push(Violation::new(p, "one-reference-tracker", "history-not-explained", detail.clone()));
                        }
                    }
                    fold(&mut sig, ops.len() as u64);
                }
            }
        }
        let nontrivial = n_ok >= 3;
        Outcome { violations, fingerprint: fp, signature: if nontrivial { Some(sig) } else { None } }
    }

    fn size(scn: &Scn) -> usize {
        scn.conns.iter().map(|c| 1 + c.script.len()).sum::<usize>() + scn.faults.len() + scn.reloads.len()
    }

    fn shrink(scn: &Scn) -> Vec<Scn> {
        let mut out = Vec::new();
        if scn.conns.len() > 1 {
            for i in 0..scn.conns.len() {
                let mut s = scn.clone();
                s.conns.remove(i);
                out.push(s);
            }
        }
        for i in 0..scn.faults.len() {
            let mut s = scn.clone();
            s.faults.remove(i);
            out.push(s);
        }
        for i in 0..scn.reloads.len() {
            let mut s = scn.clone();
            s.reloads.remove(i);
            out.push(s);
        }
        for (ci, c) in scn.conns.iter().enumerate() {
            for (a, b) in chunk_removals(c.script.len()) {
                let mut s = scn.clone();
                s.conns[ci].script.drain(a..b);
                out.push(s);
            }
        }
        if scn.socket_workers > 1 {
            let mut s = scn.clone();
            s.socket_workers -= 1;
            out.push(s);
        }
        if scn.swarm_workers > 1 {
            let mut s = scn.clone();
            s.swarm_workers -= 1;
            out.push(s);
        }
        if scn.behind_proxy {
            let mut s = scn.clone();
            s.behind_proxy = false;
            out.push(s);
        }
        if scn.duration_ms > 6_000 {
            let mut s = scn.clone();
            s.duration_ms /= 2;
            out.push(s);
        }
        if scn.yield_permille != 0 {
            let mut s = scn.clone();
            s.yield_permille = 0;
            out.push(s);
        }
        for (ci, c) in scn.conns.iter().enumerate() {
            if !c.write_caps.is_empty() {
                let mut s = scn.clone();
                s.conns[ci].write_caps.pop();
                out.push(s);
            }
            if c.slow_read != 0 {
                let mut s = scn.clone();
                s.conns[ci].slow_read = 0;
                out.push(s);
            }
            for (oi, op) in c.script.iter().enumerate() {
                match op {
                    HOp::Ann { seg, style, .. } if !seg.is_empty() || *style != 0 => {
                        let mut s = scn.clone();
                        if let HOp::Ann { seg, style, .. } = &mut s.conns[ci].script[oi] {
                            seg.clear();
                            *style = 0;
                        }
                        out.push(s);
                    }
                    HOp::Scr { seg, ts, .. } if !seg.is_empty() || ts.len() > 1 => {
                        let mut s = scn.clone();
                        if let HOp::Scr { seg, ts, .. } = &mut s.conns[ci].script[oi] {
                            seg.clear();
                            if ts.len() > 1 {
                                ts.pop();
                            }
                        }
                        out.push(s);
                    }
                    _ => {}
                }
            }
        }
        out
    }

    fn sample(scn: &Scn) -> serde_json::Value {
        let mut s = scn.clone();
        for c in s.conns.iter_mut() {
            c.script.truncate(5);
        }
        s.conns.truncate(3);
        serde_json::to_value(&s).unwrap()
    }
}
