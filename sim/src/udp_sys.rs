//! UDP-SYS: the real `aquatic_udp::run(config)` — socket workers (mio loop, request handling,
//! resend buffer), connection validator, cleaning thread, statistics thread, signal thread and
//! the watchdog loop — inside the discrete-event engine, served by simulated clients over the
//! simulated UDP network with faults. Oracles run offline over the recorded event log.
//! Decides: C06, C03 (UDP), C18 (UDP), C19 (UDP), C12 (UDP), thorough parts of C01/C05/C10/C11/C20.
use crate::core::*;
use crate::model::*;
use crate::prng::Prng;
use crate::udp_store::{canon_ip, peer_id, src_ip};
use aquatic_udp::config::Config;
use aquatic_verif_rt::engine::{self, EngineCfg, Strategy};
use aquatic_verif_rt::net::udp::{self as sudp, NetEvent, Pick, SendFault, SendOutcome};
use aquatic_verif_rt::{fault, fs, signal, thread};
use serde::{Deserialize, Serialize};
use std::collections::{BTreeMap, BTreeSet};
use std::net::{IpAddr, SocketAddr};
use std::sync::{Arc, Mutex};
use std::time::Duration;

type H20 = [u8; 20];
const PROTOCOL_ID: i64 = 0x41727101980;

// ------------------------------------------------------------------ scenario

#[derive(Clone, Debug, Serialize, Deserialize, PartialEq, Default)]
pub struct NetF {
    /// deliver twice
    pub dup: bool,
    pub delay_ms: u32,
    /// 0 none, 1 truncate to `arg` bytes, 2 extend by `arg` garbage bytes, 3 flip bit `arg`,
    /// 4 replace by `arg` random bytes, 5 drop
    pub mutate: u8,
    pub arg: u32,
    /// 0 = kernel-like hash, k>0 = the (k-1)-th eligible socket
    pub pick: u8,
    /// send with the source address of client `j` (spoofing)
    pub spoof: Option<u8>,
    /// send from source port 0
    pub sport0: bool,
}

#[derive(Clone, Debug, Serialize, Deserialize, PartialEq)]
pub enum Cid {
    /// the connection id of the last connect reply this client received
    Cur,
    Zero,
    /// current id with bit `b` flipped
    Flip(u8),
    /// the current id of client `j` (issued to another address)
    Of(u8),
    /// the first id this client ever received (possibly stale)
    First,
}

#[derive(Clone, Debug, Serialize, Deserialize, PartialEq)]
pub enum COp {
    Sleep { ms: u32 },
    Connect { net: NetF },
    Ann { t: u8, ev: u8, left: i64, want: i32, port: u16, pid: u8, cid: Cid, ext: u8, net: NetF },
    Scr { ts: Vec<u8>, cid: Cid, net: NetF },
    /// malformed: kind 0 random bytes of length `len`; 1 unknown action; 2 connect with a wrong
    /// protocol id; 3 announce with an unknown event; 4 announce with port 0; 5 scrape without
    /// hashes; 6 scrape with a ragged hash list
    Raw { kind: u8, len: u16, r: u64, cid: Cid, net: NetF },
}

#[derive(Clone, Debug, Serialize, Deserialize, PartialEq)]
pub struct Client {
    pub v6: bool,
    /// 0 global, 1 low (::/96) address
    pub ac: u8,
    pub h: u16,
    pub sport: u16,
    pub wait_ms: u32,
    pub script: Vec<COp>,
}

#[derive(Clone, Debug, Serialize, Deserialize, PartialEq)]
pub enum OOp {
    /// rewrite the access-list file (torrent indices; `bad` inserts a malformed line) and raise SIGUSR1
    Reload { at_ms: u32, list: Vec<u8>, bad: bool, missing: bool },
}

#[derive(Clone, Debug, Serialize, Deserialize, PartialEq)]
pub enum PF {
    Panic { thread: String, n: u64 },
    PanicAt { thread: String, ms: u64 },
    BindFail { thread: String },
    EndLoop { thread: String, n: u64 },
    SignalsClose { ms: u64 },
    SpawnFail { thread: String },
    Stall { thread: String, n: u64, ms: u64 },
    /// the k-th send_to on tracker socket `sock` fails: kind 0 WouldBlock, 1 ENOBUFS, 2 other
    SendFail { sock: u8, k: u64, kind: u8 },
    /// the k-th recv_from on tracker socket `sock` fails with a transient error and consumes nothing:
    /// kind 0 EINTR, 1 ECONNREFUSED (ICMP error queued on the socket), 2 ENOMEM
    RecvFail { sock: u8, k: u64, kind: u8 },
}

#[derive(Clone, Debug, Serialize, Deserialize)]
pub struct Scn {
    pub socket_workers: u8,
    /// 0: v4 + v6-only sockets; 1: v4 only; 2: v6 only; 3: one dual-stack v6 socket per worker
    pub layout: u8,
    pub max_response_peers: usize,
    pub max_scrape_torrents: u8,
    pub max_connection_age: u32,
    pub max_peer_age: u32,
    pub cleaning_interval: u64,
    pub poll_timeout_ms: u64,
    pub resend_buffer_max_len: usize,
    pub access_mode: u8,
    pub access_list: Vec<u8>,
    pub stats_interval: u64,
    pub peer_clients: bool,
    pub exports: bool,
    pub sched_strategy: u8,
    pub sched_seed: u64,
    pub entropy_seed: u64,
    pub yield_permille: u32,
    pub spurious_poll_permille: u32,
    pub duration_ms: u64,
    pub clients: Vec<Client>,
    pub operator: Vec<OOp>,
    pub faults: Vec<PF>,
    /// clients do not wait for the tracker to come up: their first datagrams go out the instant a socket is bound,
    /// while the tracker may still be starting its other threads
    #[serde(default)]
    pub early: bool,
    /// privileges.drop_privileges: the socket workers rendezvous at a barrier after binding (the chroot itself is not simulated)
    #[serde(default)]
    pub drop_priv: bool,
    /// statistics.run_prometheus_endpoint: the metrics worker (a simulated exporter thread, rt::metrics) is spawned
    /// and registered by the real run(); the statistics collector's prometheus branch (gauges) runs for real
    #[serde(default)]
    pub prometheus: bool,
}

pub fn info_hash(t: u8) -> H20 {
    let mut h = [5u8; 20];
    h[0] = t % 3;
    h[1] = t;
    h[19] = t.wrapping_mul(31);
    h
}

// ------------------------------------------------------------------ independent BEP 15 codec

fn enc_connect(tx: i32, proto: i64) -> Vec<u8> {
    let mut b = Vec::new();
    b.extend(proto.to_be_bytes());
    b.extend(0i32.to_be_bytes());
    b.extend(tx.to_be_bytes());
    b
}
#[allow(clippy::too_many_arguments)]
fn enc_announce(cid: i64, tx: i32, ih: H20, pid: H20, left: i64, event: i32, ipf: u32, want: i32, port: u16, ext: u8) -> Vec<u8> {
    let mut b = Vec::new();
    b.extend(cid.to_be_bytes());
    b.extend(1i32.to_be_bytes());
    b.extend(tx.to_be_bytes());
    b.extend(ih);
    b.extend(pid);
    b.extend(0i64.to_be_bytes());
    b.extend(left.to_be_bytes());
    b.extend(0i64.to_be_bytes());
    b.extend(event.to_be_bytes());
    b.extend(ipf.to_be_bytes());
    b.extend(77u32.to_be_bytes());
    b.extend(want.to_be_bytes());
    b.extend(port.to_be_bytes());
    for i in 0..ext {
        b.push(i);
    }
    b
}
fn enc_scrape(cid: i64, tx: i32, ihs: &[H20]) -> Vec<u8> {
    let mut b = Vec::new();
    b.extend(cid.to_be_bytes());
    b.extend(2i32.to_be_bytes());
    b.extend(tx.to_be_bytes());
    for h in ihs {
        b.extend(h);
    }
    b
}

#[derive(Debug, Clone)]
enum Decoded {
    Connect { tx: i32 },
    Announce { cid: i64, tx: i32, ih: H20, pid: H20, left: i64, event: i32, want: i32, port: u16 },
    Scrape { cid: i64, tx: i32, ihs: Vec<H20> },
    /// malformed, but a connection id and transaction id can be read
    Malformed { cid: i64, tx: i32 },
    Garbage,
}

fn be32(b: &[u8]) -> i32 {
    i32::from_be_bytes(b[..4].try_into().unwrap())
}
fn be64(b: &[u8]) -> i64 {
    i64::from_be_bytes(b[..8].try_into().unwrap())
}

fn decode(b: &[u8]) -> Decoded {
    if b.len() < 16 {
        return Decoded::Garbage;
    }
    let first = be64(&b[0..8]);
    let action = be32(&b[8..12]);
    let tx = be32(&b[12..16]);
    match action {
        0 => {
            if first == PROTOCOL_ID {
                Decoded::Connect { tx }
            } else {
                // the only reply obtainable without a valid id is the connect reply, and this is no connect request
                Decoded::Garbage
            }
        }
        1 => {
            if b.len() < 98 {
                return Decoded::Malformed { cid: first, tx };
            }
            let mut ih = [0u8; 20];
            ih.copy_from_slice(&b[16..36]);
            let mut pid = [0u8; 20];
            pid.copy_from_slice(&b[36..56]);
            let left = be64(&b[64..72]);
            let event = be32(&b[80..84]);
            let want = be32(&b[92..96]);
            let port = u16::from_be_bytes([b[96], b[97]]);
            if !(0..=3).contains(&event) || port == 0 {
                return Decoded::Malformed { cid: first, tx };
            }
            Decoded::Announce { cid: first, tx, ih, pid, left, event, want, port }
        }
        2 => {
            let rest = &b[16..];
            if rest.is_empty() || rest.len() % 20 != 0 {
                return Decoded::Malformed { cid: first, tx };
            }
            let ihs = rest.chunks(20).map(|c| c.try_into().unwrap()).collect();
            Decoded::Scrape { cid: first, tx, ihs }
        }
        _ => Decoded::Malformed { cid: first, tx },
    }
}

// ------------------------------------------------------------------ what the run recorded

#[derive(Default)]
struct Collected {
    run_returned: Option<(u64, Result<(), String>)>,
    html: Option<String>,
    /// gauges a prometheus scrape would show at the end of the run (recording recorder)
    gauges: BTreeMap<String, f64>,
    export: Option<String>,
    /// (time ns, seq) at which the operator rewrote the file and raised the signal; list it wrote
    reloads: Vec<(u64, u64, Option<Vec<H20>>)>,
    spoofed_ids: BTreeSet<u64>,
    sport0_ids: BTreeSet<u64>,
    client_addrs: Vec<SocketAddr>,
    end_ns: u64,
}

pub struct UdpSys;

fn client_addr(c: &Client) -> SocketAddr {
    SocketAddr::new(src_ip(c.v6, if c.v6 { c.ac % 2 } else { 0 }, c.h), c.sport.max(1))
}

fn build_config(scn: &Scn, dir: &std::path::Path) -> Config {
    let mut c = Config::default();
    c.privileges.drop_privileges = scn.drop_priv;
    c.socket_workers = scn.socket_workers.max(1) as usize;
    match scn.layout % 4 {
        0 => {}
        1 => c.network.use_ipv6 = false,
        2 => c.network.use_ipv4 = false,
        _ => {
            c.network.use_ipv4 = false;
            c.network.set_only_ipv6 = false;
        }
    }
    c.network.poll_timeout_ms = scn.poll_timeout_ms.max(1);
    c.network.resend_buffer_max_len = scn.resend_buffer_max_len;
    c.protocol.max_response_peers = scn.max_response_peers;
    c.protocol.max_scrape_torrents = scn.max_scrape_torrents;
    c.cleaning.max_connection_age = scn.max_connection_age;
    c.cleaning.max_peer_age = scn.max_peer_age;
    c.cleaning.torrent_cleaning_interval = scn.cleaning_interval.max(1);
    c.access_list.mode = match scn.access_mode {
        1 => aquatic_common::access_list::AccessListMode::Allow,
        2 => aquatic_common::access_list::AccessListMode::Deny,
        _ => aquatic_common::access_list::AccessListMode::Off,
    };
    c.access_list.path = dir.join("access-list.txt");
    c.statistics.interval = scn.stats_interval;
    c.statistics.write_html_to_file = scn.stats_interval > 0;
    c.statistics.peer_clients = scn.peer_clients;
    // the per-client table is only rendered together with the histograms
    c.statistics.torrent_peer_histograms = scn.peer_clients;
    c.statistics.html_file_path = dir.join("statistics.html");
    c.statistics.run_prometheus_endpoint = scn.prometheus;
    c.scrape_exports.enable_scrape_exports = scn.exports;
    c.scrape_exports.frequency = 1;
    c.scrape_exports.path = dir.join("export.txt");
    c
}

fn list_file(list: &[u8], bad: bool) -> String {
    let mut s = String::new();
    for (i, t) in list.iter().enumerate() {
        if bad && i == list.len() / 2 {
            s.push_str("not-a-hash\n");
        }
        for b in info_hash(*t) {
            s.push_str(&format!("{:02x}", b));
        }
        s.push('\n');
    }
    if bad && list.is_empty() {
        s.push_str("zz\n");
    }
    s
}

/// Body of one simulated client.
#[allow(clippy::too_many_arguments)]
fn client_main(idx: usize, scn: Arc<Scn>, col: Arc<Mutex<Collected>>, cids: Arc<Mutex<Vec<(Option<i64>, Option<i64>)>>>) {
    let c = scn.clients[idx].clone();
    let addr = client_addr(&c);
    let sock = sudp::client_bind(addr);
    let mut tx: i32 = (idx as i32 + 1) * 100_000;
    let mut rstate = scn.entropy_seed ^ (idx as u64).wrapping_mul(0x9E3779B97F4A7C15);
    let addrs = col.lock().unwrap().client_addrs.clone();
    let send = |bytes: Vec<u8>, net: &NetF, rstate: &mut u64| {
        let mut bytes = bytes;
        match net.mutate {
            1 => bytes.truncate((net.arg as usize).min(bytes.len())),
            2 => {
                for i in 0..(net.arg % 64) {
                    bytes.push((crate::prng::splitmix(rstate) & 0xff) as u8 ^ i as u8);
                }
            }
            3 => {
                if !bytes.is_empty() {
                    let bit = net.arg as usize % (bytes.len() * 8);
                    bytes[bit / 8] ^= 1 << (bit % 8);
                }
            }
            4 => {
                bytes = (0..(net.arg % 300)).map(|_| (crate::prng::splitmix(rstate) & 0xff) as u8).collect();
            }
            5 => return,
            _ => {}
        }
        let mut src = match net.spoof {
            Some(j) if !addrs.is_empty() => addrs[j as usize % addrs.len()],
            _ => addr,
        };
        if net.sport0 {
            src.set_port(0);
        }
        let pick = if net.pick == 0 { Pick::Hash } else { Pick::Index(net.pick as usize - 1) };
        let n = if net.dup { 2 } else { 1 };
        for k in 0..n {
            let mut id = sudp::inject(bytes.clone(), src, pick, net.delay_ms as u64 * 1_000_000 + k * 1_000);
            let mut tries = 0;
            while id.is_none() && scn.early && engine::now() == 0 && tries < 400 {
                // no socket bound yet: a real client's datagram would be retransmitted
                engine::yield_now();
                tries += 1;
                id = sudp::inject(bytes.clone(), src, pick, net.delay_ms as u64 * 1_000_000 + k * 1_000);
            }
            if let Some(id) = id {
                let mut g = col.lock().unwrap();
                if net.spoof.is_some() && src != addr {
                    g.spoofed_ids.insert(id);
                }
                if net.sport0 {
                    g.sport0_ids.insert(id);
                }
            }
        }
        engine::maybe_yield();
    };
    let pick_cid = |sel: &Cid, cids: &Arc<Mutex<Vec<(Option<i64>, Option<i64>)>>>| -> i64 {
        let g = cids.lock().unwrap();
        match sel {
            Cid::Cur => g[idx].1.unwrap_or(0x0102030405060708),
            Cid::Zero => 0,
            Cid::Flip(b) => g[idx].1.unwrap_or(0x0102030405060708) ^ (1i64 << (b % 64)),
            Cid::Of(j) => g[*j as usize % g.len()].1.unwrap_or(0x1111111111111111),
            Cid::First => g[idx].0.unwrap_or(0x2222222222222222),
        }
    };
    for op in &c.script {
        tx = tx.wrapping_add(1);
        match op {
            COp::Sleep { ms } => {
                thread::sleep(Duration::from_millis(*ms as u64));
                continue;
            }
            COp::Connect { net } => send(enc_connect(tx, PROTOCOL_ID), net, &mut rstate),
            COp::Ann { t, ev, left, want, port, pid, cid, ext, net } => {
                let cidv = pick_cid(cid, &cids);
                // the in-request address field always names some other host
                let ipf = u32::from_be_bytes([10, 0, 0, (c.h as u8).wrapping_add(1)]);
                send(enc_announce(cidv, tx, info_hash(*t), peer_id(*pid), *left, (*ev % 4) as i32, ipf, *want, (*port).max(1), *ext), net, &mut rstate)
            }
            COp::Scr { ts, cid, net } => {
                let cidv = pick_cid(cid, &cids);
                let ihs: Vec<H20> = ts.iter().map(|t| info_hash(*t)).collect();
                send(enc_scrape(cidv, tx, &ihs), net, &mut rstate)
            }
            COp::Raw { kind, len, r, cid, net } => {
                let cidv = pick_cid(cid, &cids);
                let mut st = *r;
                let bytes = match kind % 7 {
                    0 => (0..(*len % 1500)).map(|_| (crate::prng::splitmix(&mut st) & 0xff) as u8).collect(),
                    1 => {
                        let mut b = enc_scrape(cidv, tx, &[info_hash(0)]);
                        b[8..12].copy_from_slice(&(4 + (*r % 1000) as i32).to_be_bytes());
                        b
                    }
                    2 => enc_connect(tx, PROTOCOL_ID ^ (1 << (*r % 40))),
                    3 => enc_announce(cidv, tx, info_hash(0), peer_id(0), 1, 4 + (*r % 100) as i32, 0, 0, 1000, 0),
                    4 => enc_announce(cidv, tx, info_hash(0), peer_id(0), 1, 0, 0, 0, 0, 0),
                    5 => enc_scrape(cidv, tx, &[]),
                    _ => {
                        let mut b = enc_scrape(cidv, tx, &[info_hash(0), info_hash(1)]);
                        b.truncate(b.len() - 1 - (*r % 18) as usize);
                        b
                    }
                };
                send(bytes, net, &mut rstate)
            }
        }
        // wait for replies; remember connection ids from connect replies
        let deadline = engine::now() + c.wait_ms as u64 * 1_000_000;
        loop {
            let left = deadline.saturating_sub(engine::now());
            if left == 0 {
                break;
            }
            match sock.recv(Duration::from_nanos(left)) {
                Some(d) => {
                    if d.len() == 16 && be32(&d[0..4]) == 0 {
                        let v = be64(&d[8..16]);
                        let mut g = cids.lock().unwrap();
                        if g[idx].0.is_none() {
                            g[idx].0 = Some(v);
                        }
                        g[idx].1 = Some(v);
                    }
                    if matches!(op, COp::Connect { .. } | COp::Ann { .. } | COp::Scr { .. }) && !matches!(op, COp::Connect { net } | COp::Ann { net, .. } | COp::Scr { net, .. } if net.dup) {
                        break;
                    }
                }
                None => break,
            }
        }
    }
}

/// Everything that happens inside the engine for one run.
fn sim_root(scn: Arc<Scn>, col: Arc<Mutex<Collected>>) {
    let dir = fs::scratch_dir();
    let config = build_config(&scn, &dir);
    std::fs::write(&config.access_list.path, list_file(&scn.access_list, false)).unwrap();
    // fault plan
    let mut plan = fault::Plan::default();
    let mut send_faults = BTreeMap::new();
    let mut recv_faults = BTreeMap::new();
    let mut sig_close: Option<u64> = None;
    for f in &scn.faults {
        match f {
            PF::Panic { thread, n } => plan.panic_at.push((thread.clone(), *n)),
            PF::PanicAt { thread, ms } => plan.panic_at_time.push((thread.clone(), ms * 1_000_000)),
            PF::BindFail { thread } => plan.fail_bind.push(thread.clone()),
            PF::EndLoop { thread, n } => plan.end_loop_at.push((thread.clone(), *n)),
            PF::SignalsClose { ms } => sig_close = Some(*ms),
            PF::SpawnFail { thread } => plan.fail_spawn.push(thread.clone()),
            PF::Stall { thread, n, ms } => plan.stall_at.push((thread.clone(), *n, ms * 1_000_000)),
            PF::RecvFail { sock, k, kind } => {
                recv_faults.insert((*sock as usize, *k), kind % 3);
            }
            PF::SendFail { sock, k, kind } => {
                send_faults.insert((*sock as usize, *k), match kind % 3 {
                    0 => SendFault::WouldBlock,
                    1 => SendFault::NoBufs,
                    _ => SendFault::Other,
                });
            }
        }
    }
    if scn.early {
        // a slow start (think of a large access-list file): the thread running run() stalls for 3 ms at one of its first seam calls
        plan.stall_at.push(("tracker-run".into(), 1 + scn.sched_seed % 10, 3_000_000));
    }
    fault::set_plan(plan);
    sudp::set_send_faults(send_faults);
    sudp::set_recv_faults(recv_faults);
    sudp::set_spurious_poll_permille(scn.spurious_poll_permille);
    {
        let mut g = col.lock().unwrap();
        g.client_addrs = scn.clients.iter().map(client_addr).collect();
    }
    let _net = thread::spawn_named("net", sudp::net_thread_main);
    let col2 = col.clone();
    let run_handle = thread::spawn_named("tracker-run", move || {
        let r = aquatic_udp::run(config);
        let t = engine::now();
        col2.lock().unwrap().run_returned = Some((t, r.map_err(|e| format!("{:#}", e))));
    });
    // give the tracker a moment to bind its sockets
    if !scn.early {
        thread::sleep(Duration::from_millis(5));
    }
    let cids = Arc::new(Mutex::new(vec![(None, None); scn.clients.len()]));
    let mut hs = Vec::new();
    for i in 0..scn.clients.len() {
        let (s, c, k) = (scn.clone(), col.clone(), cids.clone());
        hs.push(thread::spawn_named(&format!("client-{}", i), move || client_main(i, s, c, k)));
    }
    // operator
    {
        let (s, c) = (scn.clone(), col.clone());
        let path = dir.join("access-list.txt");
        hs.push(thread::spawn_named("operator", move || {
            let mut ops: Vec<(u64, Option<&OOp>)> = s.operator.iter().map(|o| match o {
                OOp::Reload { at_ms, .. } => (*at_ms as u64, Some(o)),
            }).collect();
            if let Some(ms) = sig_close {
                ops.push((ms, None));
            }
            ops.sort_by_key(|o| o.0);
            for (at, o) in ops {
                let now_ms = engine::now() / 1_000_000;
                if at > now_ms {
                    thread::sleep(Duration::from_millis(at - now_ms));
                }
                match o {
                    Some(OOp::Reload { list, bad, missing, .. }) => {
                        if *missing {
                            let _ = std::fs::remove_file(&path);
                        } else {
                            std::fs::write(&path, list_file(list, *bad)).unwrap();
                        }
                        let seq = engine::seq();
                        let ok = !*bad && !*missing;
                        c.lock().unwrap().reloads.push((engine::now(), seq, if ok { Some(list.iter().map(|t| info_hash(*t)).collect()) } else { None }));
                        signal::raise(10);
                    }
                    None => signal::close(),
                }
            }
        }));
    }
    for h in hs {
        let _ = h.join();
    }
    let now_ms = engine::now() / 1_000_000;
    if scn.duration_ms > now_ms {
        thread::sleep(Duration::from_millis(scn.duration_ms - now_ms));
    }
    let mut g = col.lock().unwrap();
    g.html = std::fs::read_to_string(dir.join("statistics.html")).ok();
    g.export = std::fs::read_to_string(dir.join("export.txt")).ok();
    g.gauges = crate::recorder::gauges();
    g.end_ns = engine::now();
    drop(g);
    let _ = run_handle;
}

// ------------------------------------------------------------------ oracle

struct Issue {
    ip: IpAddr,
    t_ns: u64,
}

struct Oracle<'a> {
    scn: &'a Scn,
    violations: Vec<Violation>,
    model: RefTracker,
    /// deadline uncertainty: torrents whose content can no longer be predicted exactly
    tainted: BTreeSet<(Fam, H20)>,
    issued: BTreeMap<i64, Vec<Issue>>,
    /// list in force: (from seq, until seq (ambiguous window end), new list or None when the reload fails)
    list: BTreeSet<H20>,
    stale_ns: u64,
    stats_probe: BTreeMap<&'static str, u64>,
    fp: u64,
    sig: u64,
}

fn fold(h: &mut u64, x: u64) {
    *h = (*h ^ x).wrapping_mul(0x100000001b3).rotate_left(9);
}

#[derive(Clone, Copy, PartialEq, Debug)]
enum Tri {
    Yes,
    No,
    Maybe,
}

impl<'a> Oracle<'a> {
    fn fail(&mut self, props: &[&str], check: &str, signature: &str, detail: String) {
        for p in props {
            self.violations.push(Violation::new(p, check, signature, detail.clone()));
        }
    }
    fn probe(&mut self, k: &'static str) {
        *self.stats_probe.entry(k).or_insert(0) += 1;
    }

    /// Is `cid` valid for `ip` at time `t_ns` (worker clock samples may lag by `stale_ns`)?
    fn cid_valid(&self, cid: i64, ip: IpAddr, t_ns: u64) -> Tri {
        let age = self.scn.max_connection_age as u64;
        let Some(issues) = self.issued.get(&cid) else { return Tri::No };
        let mut best = Tri::No;
        for i in issues.iter().filter(|i| i.ip == ip) {
            let issue_lo = i.t_ns.saturating_sub(self.stale_ns) / 1_000_000_000;
            let issue_hi = i.t_ns / 1_000_000_000;
            let now_lo = t_ns.saturating_sub(self.stale_ns) / 1_000_000_000;
            let now_hi = t_ns / 1_000_000_000;
            // valid <=> now - issue < age  (and issue <= now + 60, always true for a lag below 60 s)
            let surely = now_hi.saturating_sub(issue_lo) < age && issue_hi <= now_lo + 60;
            let possibly = now_lo.saturating_sub(issue_hi) < age && issue_lo <= now_hi + 60;
            if surely {
                return Tri::Yes;
            }
            if possibly {
                best = Tri::Maybe;
            }
        }
        best
    }

    fn allowed(&self, ih: &H20) -> bool {
        match self.scn.access_mode {
            1 => self.list.contains(ih),
            2 => !self.list.contains(ih),
            _ => true,
        }
    }
}

#[derive(Clone)]
struct Attempt {
    dest: SocketAddr,
    bytes: Vec<u8>,
    outcome: SendOutcome,
    seq: u64,
}

struct Handled {
    seq: u64,
    t_ns: u64,
    tid: usize,
    id: u64,
    src_presented: SocketAddr,
    bytes: Vec<u8>,
    reply: Option<Attempt>,
    extra_replies: usize,
}

fn canon_sock(a: SocketAddr) -> SocketAddr {
    SocketAddr::new(canon_ip(a.ip()), a.port())
}

impl Harness for UdpSys {
    type Scn = Scn;
    const NAME: &'static str = "udp_sys";
    const MINIMISE_BUDGET: u64 = 400;

    fn generate(seed: u64, tier: Tier, prop: &str) -> Scn {
        let mut r = Prng::stream(seed, "scenario");
        let socket_workers = r.range(1, 3) as u8;
        let layout = *r.pick(&[0u8, 0, 1, 2, 3, 3]);
        let poll_timeout_ms = *r.pick(&[10u64, 20, 50]);
        let c18 = prop == "C18";
        let max_response_peers = if c18 { *r.pick(&[1usize, 30, 112, 113, 170, 454, 455, 1000]) } else { *r.pick(&[1usize, 2, 5, 30, 100]) };
        let max_scrape_torrents = if c18 { *r.pick(&[1u8, 70, 170, 255]) } else { *r.pick(&[1u8, 2, 3, 70]) };
        let max_connection_age = *r.pick(&[30u32, 60, 120]);
        let max_peer_age = *r.pick(&[20u32, 40, 1200]);
        let cleaning_interval = *r.pick(&[5u64, 8, 30]);
        let access_mode = if prop == "C11" { r.range(1, 2) as u8 } else if r.chance(250) { r.range(1, 2) as u8 } else { 0 };
        let access_list: Vec<u8> = (0..r.below(4)).map(|_| r.below(5) as u8).collect();
        let c20 = prop == "C20";
        let stats_interval = if c20 || r.chance(300) { 5 } else { 0 };
        // knobs added later draw from a stream of their own so that older seeds keep their scenarios
        let mut r2 = Prng::stream(seed, "scenario-metrics");
        let prometheus = r2.chance(if prop == "C19" { 600 } else { 350 });
        let stats_interval = if prometheus && prop == "C19" && r2.chance(500) { 5 } else { stats_interval };
        let faulty_net = prop == "C12" || (prop != "C19" && r.chance(400));
        let n_clients = if c18 { 2 } else { r.range(2, if tier == Tier::Quick { 5 } else { 8 }) as usize };
        let n_torrents = r.range(1, 4) as u8;
        let early = prop != "C19" && !c18 && r.chance(if prop == "C11" { 300 } else { 120 });
        let mut clients = Vec::new();
        for i in 0..n_clients {
            let v6 = match layout % 4 {
                1 => r.chance(100),
                2 => r.chance(900),
                3 => r.chance(350),
                _ => r.chance(400),
            };
            let n_ops = r.range(4, if tier == Tier::Quick { 16 } else { 30 }) as usize;
            let mut script = vec![COp::Connect { net: NetF::default() }];
            if early {
                // straight after the connect: an announce the access list may forbid
                script.push(COp::Ann { t: access_list.first().copied().unwrap_or(0), ev: 1, left: 1, want: 1, port: 1000 + i as u16, pid: i as u8, cid: Cid::Cur, ext: 0, net: NetF::default() });
            }
            let mut netf = |r: &mut Prng| -> NetF {
                if !faulty_net || r.chance(600) {
                    return NetF { pick: if r.chance(300) { r.range(1, 3) as u8 } else { 0 }, ..Default::default() };
                }
                NetF {
                    dup: r.chance(150),
                    delay_ms: if r.chance(200) { r.range(1, 1500) as u32 } else { 0 },
                    mutate: if r.chance(450) { r.range(1, 5) as u8 } else { 0 },
                    arg: r.below(900) as u32,
                    pick: if r.chance(300) { r.range(1, 3) as u8 } else { 0 },
                    spoof: if r.chance(100) { Some(r.below(n_clients as u64) as u8) } else { None },
                    sport0: r.chance(40),
                }
            };
            let cidsel = |r: &mut Prng| -> Cid {
                match r.below(14) {
                    0 => Cid::Zero,
                    1 => Cid::Flip(r.below(64) as u8),
                    2 => Cid::Of(r.below(n_clients as u64) as u8),
                    3 => Cid::First,
                    _ => Cid::Cur,
                }
            };
            for _ in 0..n_ops {
                let op = match r.weighted(&[14, 6, 50, 14, if faulty_net { 14 } else { 3 }]) {
                    0 => COp::Sleep { ms: *r.pick(&[50u32, 300, 1000, 3000, 9000, 15000]) },
                    1 => COp::Connect { net: netf(&mut r) },
                    2 => COp::Ann {
                        t: r.below(n_torrents as u64) as u8,
                        ev: if r.chance(180) { 3 } else { r.below(3) as u8 },
                        left: *r.pick(&[0i64, 0, 1, 500, -1, i64::MAX, i64::MIN]),
                        want: *r.pick(&[0i32, -1, 1, 2, 50, i32::MAX, i32::MIN]),
                        port: *r.pick(&[1u16, 1000, 1001, 65535]),
                        pid: if r.chance(120) { r.range(200, 255) as u8 } else { r.below(6) as u8 },
                        cid: cidsel(&mut r),
                        ext: if r.chance(150) { r.range(1, 40) as u8 } else { 0 },
                        net: netf(&mut r),
                    },
                    3 => {
                        let n = *r.pick(&[1usize, 1, 2, 3, 5, 80]);
                        COp::Scr { ts: (0..n).map(|_| r.below(n_torrents as u64 + 2) as u8).collect(), cid: cidsel(&mut r), net: netf(&mut r) }
                    }
                    _ => COp::Raw { kind: r.below(7) as u8, len: r.below(1500) as u16, r: r.next_u64(), cid: cidsel(&mut r), net: netf(&mut r) },
                };
                script.push(op);
            }
            clients.push(Client { v6, ac: r.below(2) as u8, h: 10 + i as u16, sport: 2000 + i as u16, wait_ms: *r.pick(&[20u32, 100, 400]), script });
        }
        // a burst: thousands of announces (new peers) within one statistics interval, none waiting for its reply
        let burst = prop == "C12" && r.chance(30);
        if burst {
            let v6 = layout % 4 == 2;
            let mut script = vec![COp::Connect { net: NetF::default() }, COp::Sleep { ms: 50 }];
            for p in 0..r.range(4200, 6000) {
                script.push(COp::Ann { t: (p % 3) as u8, ev: 1, left: 1, want: 1, port: 1 + (p % 60000) as u16, pid: (p % 200) as u8, cid: Cid::Cur, ext: 0, net: NetF::default() });
            }
            clients.push(Client { v6, ac: 0, h: 60, sport: 2060, wait_ms: 1, script });
        }
        if c18 {
            // worst accepted case: a swarm larger than the limit in the wider family, numwant = limit,
            // and the longest scrape the protocol admits
            let v6 = layout % 4 != 1;
            let swarm = (max_response_peers + 5).min(1100);
            let mut script = vec![COp::Connect { net: NetF::default() }];
            for p in 0..swarm {
                script.push(COp::Ann { t: 0, ev: 1, left: 1, want: 1, port: 1 + p as u16, pid: 1, cid: Cid::Cur, ext: 0, net: NetF::default() });
            }
            script.push(COp::Ann { t: 0, ev: 1, left: 1, want: max_response_peers.min(i32::MAX as usize) as i32, port: 60000, pid: 2, cid: Cid::Cur, ext: 0, net: NetF::default() });
            script.push(COp::Ann { t: 0, ev: 1, left: 1, want: 0, port: 60001, pid: 2, cid: Cid::Cur, ext: 0, net: NetF::default() });
            script.push(COp::Scr { ts: (0..255u16).map(|i| (i % 7) as u8).collect(), cid: Cid::Cur, net: NetF::default() });
            clients = vec![Client { v6, ac: 0, h: 10, sport: 2000, wait_ms: 30, script }];
        }
        let mut operator = Vec::new();
        if access_mode != 0 {
            for _ in 0..r.below(4) {
                operator.push(OOp::Reload { at_ms: r.range(500, 40000) as u32, list: (0..r.below(4)).map(|_| r.below(5) as u8).collect(), bad: r.chance(250), missing: r.chance(100) });
            }
        }
        let mut faults = Vec::new();
        if prop == "C19" {
            let mut threads: Vec<String> = (1..=socket_workers).map(|i| format!("socket-{:02}", i)).collect();
            threads.push("cleaning".into());
            threads.push("signals".into());
            if stats_interval > 0 {
                threads.push("statistics".into());
                if prometheus {
                    threads.push("prometheus".into());
                }
            }
            if r.chance(850) {
                let th = r.pick(&threads).clone();
                let f = match r.below(10) {
                    0 if th.starts_with("socket") || th == "prometheus" => PF::BindFail { thread: th },
                    1 if th.starts_with("socket") => PF::EndLoop { thread: th, n: *r.pick(&[1u64, 5, 50, 400]) },
                    1 if th == "prometheus" => PF::EndLoop { thread: th, n: *r.pick(&[1u64, 2, 3, 5]) },
                    2 if th == "signals" => PF::SignalsClose { ms: r.range(0, 20000) },
                    3 => PF::SpawnFail { thread: th },
                    4 | 5 => PF::PanicAt { thread: th, ms: r.range(0, 25000) },
                    _ => PF::Panic { thread: th, n: *r.pick(&[1u64, 2, 3, 5, 10, 30, 100, 300, 1000]) },
                };
                faults.push(f);
            }
        } else if r.chance(300) {
            // benign environment faults: failing sends (resend buffer), stalls
            for _ in 0..r.range(1, 4) {
                faults.push(PF::SendFail { sock: r.below(4) as u8, k: r.range(1, 12), kind: r.below(3) as u8 });
            }
            for _ in 0..r2.below(4) {
                faults.push(PF::RecvFail { sock: r2.below(4) as u8, k: r2.range(1, 40), kind: r2.below(3) as u8 });
            }
            if r.chance(300) {
                faults.push(PF::Stall { thread: format!("socket-{:02}", r.range(1, socket_workers as u64)), n: r.range(5, 200), ms: r.range(100, 3000) });
            }
        }
        let duration_ms = if prop == "C19" { 45_000 } else { r.range(20_000, if tier == Tier::Quick { 50_000 } else { 120_000 }) };
        Scn {
            socket_workers,
            layout,
            max_response_peers,
            max_scrape_torrents,
            max_connection_age,
            max_peer_age,
            cleaning_interval,
            poll_timeout_ms,
            resend_buffer_max_len: *r.pick(&[0usize, 0, 1, 8]),
            access_mode,
            access_list,
            stats_interval: if burst { 5 } else { stats_interval },
            peer_clients: burst || c20 || r.chance(400),
            exports: c20 || r.chance(200),
            sched_strategy: r.below(4) as u8,
            sched_seed: r.next_u64(),
            entropy_seed: r.next_u64(),
            yield_permille: *r.pick(&[0u32, 100, 400, 900]),
            spurious_poll_permille: *r.pick(&[0u32, 0, 50, 300]),
            duration_ms,
            clients,
            operator,
            faults,
            early,
            drop_priv: r.chance(300),
            prometheus,
        }
    }

    fn execute(scn: &Scn, prop: &str, stats: &mut Stats) -> Outcome {
        let out = execute_once(scn, prop, stats, scn.entropy_seed);
        // a reply to a forged connection id can happen by chance (2^-32): confirm under another key
        if out.violations.iter().any(|v| v.check == "no-reply-without-valid-id") {
            let mut scratch = Stats::default();
            let again = execute_once(scn, prop, &mut scratch, scn.entropy_seed ^ 0x7777_1234_5678_9999);
            if !again.violations.iter().any(|v| v.check == "no-reply-without-valid-id") {
                stats.probe("forged-id-chance-collision-discarded");
                return Outcome { violations: out.violations.into_iter().filter(|v| v.check != "no-reply-without-valid-id").collect(), ..out };
            }
        }
        out
    }

    fn size(scn: &Scn) -> usize {
        scn.clients.iter().map(|c| 1 + c.script.len()).sum::<usize>() + scn.operator.len() + scn.faults.len()
    }

    fn shrink(scn: &Scn) -> Vec<Scn> {
        let mut out = Vec::new();
        // drop whole clients (indices in Cid::Of / spoof are taken modulo, so this stays well-formed)
        if scn.clients.len() > 1 {
            for i in 0..scn.clients.len() {
                let mut s = scn.clone();
                s.clients.remove(i);
                out.push(s);
            }
        }
        for i in 0..scn.faults.len() {
            let mut s = scn.clone();
            s.faults.remove(i);
            out.push(s);
        }
        for i in 0..scn.operator.len() {
            let mut s = scn.clone();
            s.operator.remove(i);
            out.push(s);
        }
        for (ci, c) in scn.clients.iter().enumerate() {
            for (a, b) in chunk_removals(c.script.len()) {
                let mut s = scn.clone();
                s.clients[ci].script.drain(a..b);
                out.push(s);
            }
        }
        if scn.socket_workers > 1 {
            let mut s = scn.clone();
            s.socket_workers -= 1;
            out.push(s);
        }
        if scn.duration_ms > 12_000 {
            let mut s = scn.clone();
            s.duration_ms = scn.duration_ms / 2;
            out.push(s);
        }
        if scn.stats_interval != 0 {
            let mut s = scn.clone();
            s.stats_interval = 0;
            out.push(s);
        }
        if scn.yield_permille != 0 || scn.spurious_poll_permille != 0 {
            let mut s = scn.clone();
            s.yield_permille = 0;
            s.spurious_poll_permille = 0;
            out.push(s);
        }
        // simplify network faults of single operations
        for (ci, c) in scn.clients.iter().enumerate() {
            for (oi, op) in c.script.iter().enumerate() {
                let net = match op {
                    COp::Connect { net } | COp::Ann { net, .. } | COp::Scr { net, .. } | COp::Raw { net, .. } => net,
                    _ => continue,
                };
                if *net != NetF::default() {
                    let mut s = scn.clone();
                    match &mut s.clients[ci].script[oi] {
                        COp::Connect { net } | COp::Ann { net, .. } | COp::Scr { net, .. } | COp::Raw { net, .. } => *net = NetF::default(),
                        _ => {}
                    }
                    out.push(s);
                }
            }
        }
        out
    }

    fn sample(scn: &Scn) -> serde_json::Value {
        let mut s = scn.clone();
        for c in s.clients.iter_mut() {
            c.script.truncate(6);
        }
        s.clients.truncate(3);
        serde_json::to_value(&s).unwrap()
    }
}

fn execute_once(scn: &Scn, prop: &str, stats: &mut Stats, entropy: u64) -> Outcome {
    aquatic_verif_rt::reset_all(entropy);
    crate::recorder::reset();
    foldhash::verif_reset_seed_counter();
    let col = Arc::new(Mutex::new(Collected::default()));
    let scn_arc = Arc::new(scn.clone());
    let cfg = EngineCfg {
        sched_seed: scn.sched_seed,
        strategy: match scn.sched_strategy % 4 {
            0 => Strategy::Random,
            1 => Strategy::Sticky(500),
            2 => Strategy::Sticky(950),
            _ => Strategy::Pct { depth: 3, horizon: 5000 },
        },
        max_handoffs: 3_000_000,
        trace: std::env::var_os("VERIF_TRACE").is_some(),
        yield_permille: scn.yield_permille,
        record_clock: true,
        wall_limit_s: 120,
        record_events: true,
    };
    let (c2, s2) = (col.clone(), scn_arc.clone());
    let report = engine::run(cfg, move || sim_root(s2, c2));
    let net_events = sudp::take_events();
    let fired_at = fault::fired_at();
    for (k, v) in fault::fired() {
        stats.fault(k, v);
    }
    for (k, v) in sudp::fired() {
        stats.fault(k, v);
    }
    stats.handoffs += report.handoffs;
    stats.sim_seconds += report.now_ns / 1_000_000_000;
    let col = std::mem::take(&mut *col.lock().unwrap());
    let mut violations: Vec<Violation> = Vec::new();
    if report.overrun {
        // step budget exhausted: harness limit, not a verdict
        stats.probe("engine-step-budget-exhausted");
        return Outcome { violations, fingerprint: report.log_hash, signature: None };
    }
    if let Some(d) = &report.deadlock {
        violations.push(Violation::new(prop, "engine-deadlock", "engine-deadlock", format!("all simulated threads blocked without a timer: {:?}", d)));
        return Outcome { violations, fingerprint: report.log_hash, signature: None };
    }
    for (name, len, used) in aquatic_verif_rt::alloc::take_excess() {
        if !(name.starts_with("client") || name == "operator" || name == "root" || name == "net") {
            violations.push(Violation::new("C12", "allocation-bounded-by-input", "allocation-bound", format!("tracker thread {} allocated {} bytes while handling a {}-byte network input (> 64 x input + 1 MiB)", name, used, len)));
        }
    }
    let (ml, mu) = aquatic_verif_rt::alloc::take_max();
    if mu > 0 {
        stats.probe_n("largest-allocation-per-input-kib", mu / 1024);
        let _ = ml;
    }
    // ---- panics of tracker threads (not injected) -> C12
    let injected: BTreeSet<String> = fired_at.iter().filter(|f| f.1 == "panic").map(|f| f.0.clone()).collect();
    for (name, msg) in &report.panics {
        if msg.contains("injected worker death") || injected.contains(name) {
            continue;
        }
        if name.starts_with("client") || name == "operator" || name == "root" || name == "net" {
            violations.push(Violation::new(prop, "harness-thread-panic", "harness-thread-panic", format!("harness thread {} panicked: {}", name, msg)));
            continue;
        }
        let sig = if msg.contains("overflow") { "arithmetic-overflow" } else { "tracker-thread-panic" };
        violations.push(Violation::new("C12", "no-panic-on-network-input", sig, format!("tracker thread {} panicked: {}", name, msg)));
        // whatever property this run samples, a tracker that dies of its own accord no longer serves anybody
        if prop != "C12" && scn.faults.is_empty() {
            violations.push(Violation::new(prop, "tracker-stays-up", "tracker-thread-panic", format!("tracker thread {} panicked without an injected fault: {}", name, msg)));
        }
    }
    let tname = |tid: usize| report.thread_names.get(tid).cloned().unwrap_or_default();
    // ---- C19: a dead worker brings the tracker down
    {
        let mut death: Option<(u64, String)> = None;
        for (th, kind, t) in &fired_at {
            if *kind == "panic" || *kind == "bind-fail" || *kind == "end-loop" {
                if death.as_ref().map_or(true, |d| *t < d.0) {
                    death = Some((*t, format!("{} ({})", th, kind)));
                }
            }
        }
        for f in &scn.faults {
            match f {
                PF::SignalsClose { ms } if ms * 1_000_000 <= col.end_ns => {
                    if death.as_ref().map_or(true, |d| ms * 1_000_000 < d.0) {
                        death = Some((ms * 1_000_000, "signals (iterator closed)".into()));
                    }
                }
                PF::SpawnFail { thread } => {
                    // statistics thread is only spawned when statistics are active
                    if (thread != "statistics" || scn.stats_interval > 0) && (thread != "prometheus" || (scn.stats_interval > 0 && scn.prometheus)) {
                        death = Some((0, format!("{} (spawn failed)", thread)));
                    }
                }
                _ => {}
            }
        }
        // unplanned tracker-thread panics are deaths too
        for (name, _) in &report.panics {
            if !(name.starts_with("client") || name == "operator" || name == "root" || name == "net" || name == "tracker-run") && death.is_none() {
                death = Some((col.end_ns, format!("{} (unplanned panic)", name)));
            }
        }
        // a configuration whose largest reply cannot fit the buffer may be refused at start-up (C18)
        let refusable = 20 + 18 * scn.max_response_peers > 8192;
        if let (None, Some((t, Err(msg)))) = (&death, &col.run_returned) {
            if refusable && *t < 1_000_000 {
                stats.probe("configuration-refused-at-startup");
                let _ = msg;
                return Outcome { violations, fingerprint: report.log_hash, signature: Some(report.sig_hash ^ 0xC18) };
            }
        }
        match (&death, &col.run_returned) {
            (None, Some((t, r))) => violations.push(Violation::new("C19", "run-keeps-running-without-death", "run-returned-spontaneously", format!("no worker died, but run() returned at {} ms with {:?}", t / 1_000_000, r))),
            (Some((d, who)), None) => {
                if col.end_ns >= d + 10_500_000_000 {
                    violations.push(Violation::new("C19", "dead-worker-ends-run", "run-did-not-return", format!("{} died at {} ms but run() had not returned by {} ms", who, d / 1_000_000, col.end_ns / 1_000_000)));
                } else {
                    stats.probe("death-too-late-to-judge");
                }
            }
            (Some((d, who)), Some((t, r))) => {
                stats.probe("worker-death-observed");
                if who.starts_with("prometheus") {
                    stats.probe("metrics-worker-death-observed");
                }
                if r.is_ok() {
                    violations.push(Violation::new("C19", "dead-worker-ends-run", "run-returned-ok", format!("{} died at {} ms and run() returned Ok(())", who, d / 1_000_000)));
                } else if *t > d + 10_000_000_000 {
                    violations.push(Violation::new("C19", "dead-worker-ends-run", "run-returned-late", format!("{} died at {} ms but run() returned only at {} ms (> 10 s later)", who, d / 1_000_000, t / 1_000_000)));
                }
            }
            (None, None) => {}
        }
        if death.is_some() {
            // the rest of the oracles assume a complete tracker
            let fp = report.log_hash;
            return Outcome { violations, fingerprint: fp, signature: Some(report.sig_hash) };
        }
    }
    // ---- reconstruct what each socket worker handled
    let mut inj: BTreeMap<u64, (Vec<u8>, SocketAddr)> = BTreeMap::new();
    for e in &net_events {
        if let NetEvent::Inject { id, src, bytes, .. } = e {
            inj.insert(*id, (bytes.clone(), *src));
        }
    }
    let seq_time: BTreeMap<u64, u64> = report.events.iter().map(|e| (e.seq, e.now)).collect();
    let time_of = |seq: u64| seq_time.get(&seq).copied().unwrap_or(0);
    // ---- bounded liveness: with no stall or death injected, a datagram queued on a tracker socket is read
    // (a worker that never gets to its poll loop answers nobody)
    if !scn.faults.iter().any(|f| matches!(f, PF::Stall { .. } | PF::Panic { .. } | PF::PanicAt { .. } | PF::BindFail { .. } | PF::EndLoop { .. } | PF::SpawnFail { .. } | PF::SignalsClose { .. })) {
        let read: BTreeSet<u64> = net_events.iter().filter_map(|e| if let NetEvent::Recv { id, .. } = e { Some(*id) } else { None }).collect();
        let mut never = 0u64;
        let mut first: Option<(u64, SocketAddr, usize, u64)> = None;
        for e in &net_events {
            if let NetEvent::Inject { seq, id, src, sock, .. } = e {
                let t = time_of(*seq);
                if !read.contains(id) && t + 5_000_000_000 <= report.now_ns {
                    never += 1;
                    if first.is_none() {
                        first = Some((*id, *src, *sock, t));
                    }
                }
            }
        }
        stats.evaluations += 1;
        if let Some((id, src, sock, t)) = first {
            violations.push(Violation::new("C06", "datagrams-are-read", "socket-never-read", format!("{} datagrams queued on tracker sockets were never read although no worker was stalled or killed; first: datagram #{} from {} on socket {} queued at {} ms, run ended at {} ms (drop_privileges = {})", never, id, src, sock, t / 1_000_000, report.now_ns / 1_000_000, scn.drop_priv)));
        } else {
            stats.probe("all-queued-datagrams-read");
        }
    }
    let mut handled: Vec<Handled> = Vec::new();
    let mut cur: BTreeMap<usize, usize> = BTreeMap::new(); // tid -> index into handled
    let mut pending_failed: BTreeMap<usize, Vec<(SocketAddr, Vec<u8>, usize)>> = BTreeMap::new();
    let mut unsolicited: Vec<(usize, SocketAddr, usize)> = Vec::new();
    for e in &net_events {
        match e {
            NetEvent::Recv { seq, tid, id, src_presented, .. } => {
                let (bytes, _) = inj.get(id).cloned().unwrap_or_default_pair();
                handled.push(Handled { seq: *seq, t_ns: time_of(*seq), tid: *tid, id: *id, src_presented: *src_presented, bytes, reply: None, extra_replies: 0 });
                cur.insert(*tid, handled.len() - 1);
            }
            NetEvent::RecvEmpty { tid, .. } => {
                cur.remove(tid);
            }
            NetEvent::Send { seq, tid, dest, bytes, outcome, .. } => {
                if let Some(hi) = cur.get(tid).copied() {
                    if handled[hi].reply.is_none() {
                        handled[hi].reply = Some(Attempt { dest: *dest, bytes: bytes.clone(), outcome: *outcome, seq: *seq });
                        if matches!(outcome, SendOutcome::WouldBlock | SendOutcome::NoBufs) {
                            pending_failed.entry(*tid).or_default().push((*dest, bytes.clone(), hi));
                        }
                        continue;
                    }
                    handled[hi].extra_replies += 1;
                    continue;
                }
                // outside a request: only a re-send of an earlier failed reply is legitimate
                let pf = pending_failed.entry(*tid).or_default();
                if let Some(pos) = pf.iter().position(|(d, b, _)| d == dest && b == bytes) {
                    let (_, _, hi) = pf.remove(pos);
                    stats.probe("reply-resent-from-resend-buffer");
                    if let Some(r) = handled[hi].reply.as_mut() {
                        r.outcome = *outcome;
                    }
                } else {
                    unsolicited.push((*tid, *dest, bytes.len()));
                }
            }
            _ => {}
        }
    }
    if let Some((tid, dest, len)) = unsolicited.first() {
        violations.push(Violation::new("C06", "at-most-one-reply", "unsolicited-datagram", format!("worker {} sent a {}-byte datagram to {} that answers no received request", tname(*tid), len, dest)));
    }
    // ---- walk the requests in handling order
    // a worker refreshes its time samples every 256 loop iterations (each at most one poll timeout long) - and a stall
    // injected into a worker stretches that by its length
    let stalls_ns: u64 = scn.faults.iter().map(|f| if let PF::Stall { ms, .. } = f { ms * 1_000_000 } else { 0 }).sum();
    let stale_ns = 256 * scn.poll_timeout_ms.max(1) * 1_000_000 + 2_000_000 + stalls_ns;
    let mut o = Oracle {
        scn,
        violations: Vec::new(),
        model: RefTracker::default(),
        tainted: BTreeSet::new(),
        issued: BTreeMap::new(),
        list: scn.access_list.iter().map(|t| info_hash(*t)).collect(),
        stale_ns,
        stats_probe: BTreeMap::new(),
        fp: 0,
        sig: 0,
    };
    // cleaning passes: (seq of the cleaning thread's clock read, whole seconds)
    let cleaning_tid = report.thread_names.iter().position(|n| n == "cleaning");
    let cleans: Vec<(u64, u64)> = report.clock_reads.iter().filter(|(_, tid, _)| Some(*tid) == cleaning_tid).map(|(s, _, n)| (*s, *n / 1_000_000_000)).collect();
    // reload windows: from the operator's raise to the signals thread going idle again
    let signals_tid = report.thread_names.iter().position(|n| n == "signals");
    let idle_seqs: Vec<u64> = report.events.iter().filter(|e| e.kind == "signal-idle" && Some(e.tid) == signals_tid).map(|e| e.seq).collect();
    let mut reload_windows: Vec<(u64, u64, Option<Vec<H20>>)> = Vec::new();
    for (_, seq, list) in &col.reloads {
        let end = idle_seqs.iter().copied().find(|s| *s > *seq).unwrap_or(u64::MAX);
        reload_windows.push((*seq, end, list.clone()));
    }
    let mut clean_i = 0;
    let mut reload_i = 0;
    let mut n_wellformed_answered = 0u64;
    let mut n_rejected = 0u64;
    for h in &handled {
        // apply cleaning passes and finished reloads that precede this request, in event order
        advance(&mut o, &cleans, &reload_windows, &mut clean_i, &mut reload_i, h.seq, stale_ns);
        let in_reload_window = reload_windows.iter().any(|(a, b, _)| *a <= h.seq && h.seq <= *b);
        stats.evaluations += 1;
        judge(&mut o, h, &col, in_reload_window, &tname, &mut n_wellformed_answered, &mut n_rejected);
        if !o.violations.is_empty() {
            break;
        }
    }
    for (k, v) in &o.stats_probe {
        stats.probe_n(k, *v);
    }
    // ---- C20: operator reports at quiescence
    if o.violations.is_empty() && scn.stats_interval > 0 && violations.is_empty() {
        advance(&mut o, &cleans, &reload_windows, &mut clean_i, &mut reload_i, u64::MAX, stale_ns);
        let last_req_ns = handled.last().map(|h| h.t_ns).unwrap_or(0);
        let last_clean_seq = cleans.last().map(|c| c.0).unwrap_or(0);
        let last_clean_ns = time_of(last_clean_seq);
        let quiescent = last_clean_ns > last_req_ns && col.end_ns > last_clean_ns + (scn.stats_interval + 1) * 1_000_000_000 && o.tainted.is_empty();
        if quiescent {
            judge_reports(&mut o, &col, stats);
        }
    }
    violations.extend(o.violations.drain(..));
    let nontrivial = n_wellformed_answered >= 3 && (n_rejected >= 1 || prop == "C18");
    let sig = o.sig ^ report.sig_hash;
    Outcome { violations, fingerprint: report.log_hash ^ o.fp, signature: if nontrivial { Some(sig) } else { None } }
}

trait PairDefault {
    fn unwrap_or_default_pair(self) -> (Vec<u8>, SocketAddr);
}
impl PairDefault for Option<(Vec<u8>, SocketAddr)> {
    fn unwrap_or_default_pair(self) -> (Vec<u8>, SocketAddr) {
        self.unwrap_or((Vec::new(), "0.0.0.0:0".parse().unwrap()))
    }
}

/// Apply, in event order, every cleaning pass and every completed reload before `until_seq`.
/// A cleaning pass that runs while a reload is in progress may see either list: the torrents
/// on which the two lists disagree become unpredictable (tainted).
fn advance(o: &mut Oracle, cleans: &[(u64, u64)], reloads: &[(u64, u64, Option<Vec<H20>>)], clean_i: &mut usize, reload_i: &mut usize, until_seq: u64, stale_ns: u64) {
    loop {
        let next_clean = cleans.get(*clean_i).filter(|c| c.0 < until_seq).map(|c| c.0);
        let next_reload = reloads.get(*reload_i).filter(|r| r.1 < until_seq).map(|r| r.1);
        match (next_clean, next_reload) {
            (None, None) => break,
            (Some(c), r) if r.map_or(true, |r| c < r) => {
                // inside a reload window?
                if let Some((a, b, Some(newl))) = reloads.iter().find(|(a, b, _)| *a <= c && c <= *b) {
                    let _ = (a, b);
                    let keys: Vec<(Fam, H20)> = o.model.torrents.keys().copied().collect();
                    for k in keys {
                        let new_allows = match o.scn.access_mode {
                            1 => newl.contains(&k.1),
                            2 => !newl.contains(&k.1),
                            _ => true,
                        };
                        if new_allows != o.allowed(&k.1) {
                            o.tainted.insert(k);
                        }
                    }
                }
                apply_clean(o, cleans[*clean_i].1, stale_ns);
                *clean_i += 1;
            }
            _ => {
                if let Some(l) = &reloads[*reload_i].2 {
                    if o.scn.access_mode != 0 {
                        o.list = l.iter().copied().collect();
                        o.probe("access-list-reloaded");
                    }
                } else {
                    o.probe("access-list-reload-failed");
                }
                *reload_i += 1;
            }
        }
    }
}

fn apply_clean(o: &mut Oracle, now: u64, stale_ns: u64) {
    let stale_s = stale_ns / 1_000_000_000 + 1;
    // entries whose deadline interval [deadline - stale_s, deadline] contains `now` are uncertain
    let keys: Vec<(Fam, H20)> = o.model.torrents.keys().copied().collect();
    for k in keys {
        let l = o.model.torrents.get(&k).unwrap();
        if l.iter().any(|(_, e)| e.deadline > now && e.deadline.saturating_sub(stale_s) <= now) {
            o.tainted.insert(k);
            o.probe("clean-inside-deadline-uncertainty-window");
        }
    }
    let list = o.list.clone();
    let mode = o.scn.access_mode;
    let allowed = move |ih: &H20| match mode {
        1 => list.contains(ih),
        2 => !list.contains(ih),
        _ => true,
    };
    let removed = o.model.clean(now, &allowed);
    if !removed.is_empty() {
        o.probe("clean-removed-something");
    }
}

#[allow(clippy::too_many_arguments)]
fn judge(o: &mut Oracle, h: &Handled, col: &Collected, in_reload_window: bool, tname: &dyn Fn(usize) -> String, answered: &mut u64, rejected: &mut u64) {
    let scn = o.scn;
    let src = canon_sock(h.src_presented);
    let d = decode(&h.bytes);
    fold(&mut o.fp, h.reply.as_ref().map_or(0, |r| r.bytes.len() as u64 + 1));
    if h.extra_replies > 0 {
        o.fail(&["C06"], "at-most-one-reply", "several-replies", format!("datagram #{} from {} caused {} datagrams to be sent", h.id, src, 1 + h.extra_replies));
        return;
    }
    // source port 0: ignored
    if h.src_presented.port() == 0 {
        o.probe("source-port-zero");
        if h.reply.is_some() {
            o.fail(&["C06"], "source-port-zero-ignored", "source-port-zero-answered", format!("datagram from source port 0 ({}) was answered", h.src_presented));
        }
        return;
    }
    let spoofed = col.spoofed_ids.contains(&h.id);
    if spoofed {
        o.probe("spoofed-source");
    }
    // addressing and transaction id of whatever was sent
    if let Some(r) = &h.reply {
        if canon_sock(r.dest) != src {
            o.fail(&["C06", "C03"], "reply-to-exact-source", "reply-to-other-address", format!("datagram from {} answered to {}", h.src_presented, r.dest));
            return;
        }
        if r.bytes.len() < 8 {
            o.fail(&["C06"], "reply-well-formed", "short-reply", format!("{}-byte reply", r.bytes.len()));
            return;
        }
    }
    let reply_action = h.reply.as_ref().map(|r| be32(&r.bytes[0..4]));
    let reply_tx = h.reply.as_ref().map(|r| be32(&r.bytes[4..8]));
    let expect_tx = |o: &mut Oracle, tx: i32| {
        if let Some(rt) = reply_tx {
            if rt != tx {
                o.fail(&["C06"], "transaction-id-echoed", "transaction-id", format!("request transaction id {} answered with {}", tx, rt));
            }
        }
    };
    match d {
        Decoded::Garbage => {
            *rejected += 1;
            o.probe("garbage-datagram");
            if h.reply.is_some() {
                o.fail(&["C06"], "no-reply-without-valid-id", "garbage-answered", format!("a {}-byte datagram that is neither a connect request nor carries a valid connection id was answered with {} bytes", h.bytes.len(), h.reply.as_ref().unwrap().bytes.len()));
            }
        }
        Decoded::Connect { tx } => {
            match &h.reply {
                None => o.fail(&["C06"], "one-reply-for-well-formed-request", "connect-unanswered", format!("well-formed connect request from {} got no reply", src)),
                Some(r) => {
                    if reply_action != Some(0) || r.bytes.len() != 16 {
                        o.fail(&["C06"], "reply-kind", "connect-reply-kind", format!("connect request answered with action {:?} / {} bytes", reply_action, r.bytes.len()));
                        return;
                    }
                    if r.bytes.len() > h.bytes.len() {
                        o.fail(&["C06"], "no-amplification", "connect-amplification", format!("{}-byte connect reply to a {}-byte request", r.bytes.len(), h.bytes.len()));
                        return;
                    }
                    expect_tx(o, tx);
                    let cid = be64(&r.bytes[8..16]);
                    o.issued.entry(cid).or_default().push(Issue { ip: src.ip(), t_ns: h.t_ns });
                    *answered += 1;
                    fold(&mut o.sig, 1);
                }
            }
        }
        Decoded::Malformed { cid, tx } => {
            *rejected += 1;
            o.probe("malformed-request");
            match o.cid_valid(cid, src.ip(), h.t_ns) {
                Tri::No => {
                    if h.reply.is_some() {
                        o.fail(&["C06"], "no-reply-without-valid-id", "malformed-answered-without-valid-id", format!("malformed request from {} without a valid connection id was answered ({} bytes in, {} bytes out)", src, h.bytes.len(), h.reply.as_ref().unwrap().bytes.len()));
                    }
                }
                _ => {
                    if h.reply.is_some() {
                        if reply_action != Some(3) {
                            o.fail(&["C06"], "reply-kind", "malformed-reply-kind", format!("malformed request answered with action {:?} instead of an error", reply_action));
                            return;
                        }
                        expect_tx(o, tx);
                        o.probe("error-reply-to-malformed-request");
                    }
                }
            }
            fold(&mut o.sig, 2);
        }
        Decoded::Announce { cid, tx, ih, pid, left, event, want, port } => {
            let v = o.cid_valid(cid, src.ip(), h.t_ns);
            match v {
                Tri::No => {
                    *rejected += 1;
                    o.probe("announce-without-valid-id");
                    if h.reply.is_some() {
                        o.fail(&["C06", "C05"], "no-reply-without-valid-id", "announce-answered-without-valid-id", format!("announce from {} with connection id {:#x} (not valid for this source now) was answered", src, cid));
                    }
                    return;
                }
                Tri::Maybe => {
                    o.probe("connection-id-validity-uncertain");
                    if h.reply.is_none() {
                        return;
                    }
                }
                Tri::Yes => {}
            }
            let Some(r) = &h.reply else {
                // was the computed reply too large for the tracker's send buffer? (C18)
                let fam = Fam::of(&src.ip());
                let others = o.model.size(fam, &ih).saturating_sub(o.model.torrents.get(&(fam, ih)).map_or(0, |l| l.iter().filter(|(k, _)| *k == (src.ip(), port)).count()));
                let n = others.min(limit_of(Some(want as i64), scn.max_response_peers));
                let need = 20 + n * if fam == Fam::V4 { 6 } else { 18 };
                if need > 8192 {
                    o.fail(&["C18", "C06"], "reply-fits-buffer", "announce-reply-exceeds-buffer", format!("announce from {} (want {}, max_response_peers {}, {} other stored peers): the {}-byte reply does not fit the 8192-byte buffer and was dropped", src, want, scn.max_response_peers, others, need));
                } else {
                    // an accepted request whose computed reply never leaves the tracker is also C18's business
                    o.fail(&["C06", "C05", "C18"], "one-reply-for-well-formed-request", "announce-unanswered", format!("well-formed announce from {} with a valid connection id got no reply (worker {}; the reply would have {} bytes)", src, tname(h.tid), need));
                }
                return;
            };
            expect_tx(o, tx);
            let allowed = o.allowed(&ih);
            if in_reload_window && ((reply_action == Some(3)) != !allowed) {
                // decision may follow either list while the reload is in progress
                o.probe("announce-during-reload-window");
                o.tainted.insert((Fam::of(&src.ip()), ih));
                return;
            }
            if !allowed {
                o.probe("announce-forbidden-by-access-list");
                if reply_action != Some(3) {
                    o.fail(&["C11"], "forbidden-announce-gets-error", "forbidden-announce-accepted", format!("announce for a torrent the access list in force forbids was answered with action {:?}", reply_action));
                }
                fold(&mut o.sig, 3);
                return;
            }
            let fam = Fam::of(&src.ip());
            let want_action = 1;
            if reply_action != Some(want_action) {
                if reply_action == Some(3) {
                    o.fail(&["C11", "C06"], "permitted-announce-accepted", "permitted-announce-rejected", format!("announce for a permitted torrent from {} got an error reply: {:?}", src, String::from_utf8_lossy(&r.bytes[8..])));
                } else {
                    o.fail(&["C06"], "reply-kind", "announce-reply-kind", format!("announce answered with action {:?}", reply_action));
                }
                return;
            }
            // family of the reply = family of the canonical source (peer entries are 6 or 18 bytes)
            let entry = if fam == Fam::V4 { 6 } else { 18 };
            if r.bytes.len() < 20 || (r.bytes.len() - 20) % entry != 0 {
                o.fail(&["C06", "C03"], "reply-kind", "announce-reply-family", format!("announce reply to {:?} source has {} bytes (not 20 + n*{})", fam, r.bytes.len(), entry));
                return;
            }
            let leechers = be32(&r.bytes[12..16]);
            let seeders = be32(&r.bytes[16..20]);
            let peers: Vec<Key> = r.bytes[20..]
                .chunks(entry)
                .map(|c| {
                    let ip: IpAddr = if fam == Fam::V4 { IpAddr::from(<[u8; 4]>::try_from(&c[..4]).unwrap()) } else { IpAddr::from(<[u8; 16]>::try_from(&c[..16]).unwrap()) };
                    (ip, u16::from_be_bytes([c[entry - 2], c[entry - 1]]))
                })
                .collect();
            let stopped = event == 3;
            let now_s = h.t_ns / 1_000_000_000;
            let deadline = now_s + scn.max_peer_age as u64;
            let key: Key = (src.ip(), port);
            let view = o.model.announce(fam, ih, key, stopped, left == 0, deadline, pid);
            *answered += 1;
            if matches!(r.outcome, SendOutcome::WouldBlock | SendOutcome::NoBufs | SendOutcome::OtherError) {
                o.probe("reply-send-failed-by-fault");
            }
            if !o.tainted.contains(&(fam, ih)) {
                if seeders as i64 != view.seeders as i64 || leechers as i64 != view.leechers as i64 {
                    o.fail(&["C01", "C03", "C10"], "announce-counts", "sys-announce-counts", format!("announce from {} port {}: reply seeders/leechers {}/{} but reference {}/{}", src, port, seeders, leechers, view.seeders, view.leechers));
                    return;
                }
                let limit = limit_of(Some(want as i64), scn.max_response_peers);
                if let Err((check, detail)) = check_peer_list(&peers, &view.candidates, &key, limit) {
                    let props: &[&str] = if check == "peers-stored-member" { &["C03", "C02", "C01"] } else { &["C02"] };
                    o.fail(props, check, check, format!("announce from {} port {} want={}: {}", src, port, want, detail));
                    return;
                }
            }
            if h.src_presented.ip() != src.ip() {
                o.probe("announce-via-dual-stack-mapped-source");
            }
            fold(&mut o.sig, 4 | (stopped as u64) << 4 | (view.previous.is_some() as u64) << 5 | ((view.candidates.len().min(3)) as u64) << 6);
        }
        Decoded::Scrape { cid, tx, ihs } => {
            let v = o.cid_valid(cid, src.ip(), h.t_ns);
            match v {
                Tri::No => {
                    *rejected += 1;
                    o.probe("scrape-without-valid-id");
                    if h.reply.is_some() {
                        o.fail(&["C06", "C05"], "no-reply-without-valid-id", "scrape-answered-without-valid-id", format!("scrape from {} with connection id {:#x} (not valid for this source now) was answered", src, cid));
                    }
                    return;
                }
                Tri::Maybe => {
                    o.probe("connection-id-validity-uncertain");
                    if h.reply.is_none() {
                        return;
                    }
                }
                Tri::Yes => {}
            }
            let n_expected = ihs.len().min(scn.max_scrape_torrents as usize);
            let Some(r) = &h.reply else {
                // the reply may have been too large for the send buffer: that is C18's business
                let need = 8 + 12 * n_expected;
                let sig = if need > 8192 { "scrape-reply-exceeds-buffer" } else { "scrape-unanswered" };
                o.fail(if need > 8192 { &["C18", "C06"] } else { &["C06", "C18"] }, if need > 8192 { "reply-fits-buffer" } else { "one-reply-for-well-formed-request" }, sig, format!("well-formed scrape of {} hashes from {} with a valid connection id got no reply", ihs.len(), src));
                return;
            };
            expect_tx(o, tx);
            if reply_action != Some(2) {
                o.fail(&["C06"], "reply-kind", "scrape-reply-kind", format!("scrape answered with action {:?}", reply_action));
                return;
            }
            if (r.bytes.len() - 8) % 12 != 0 || (r.bytes.len() - 8) / 12 != n_expected {
                o.fail(&["C06"], "scrape-lists-first-max-torrents", "scrape-length", format!("scrape of {} hashes with max_scrape_torrents {} answered with {} entries", ihs.len(), scn.max_scrape_torrents, (r.bytes.len() - 8) / 12));
                return;
            }
            if ihs.len() > n_expected {
                o.probe("scrape-longer-than-limit");
            }
            let fam = Fam::of(&src.ip());
            for (i, ih) in ihs.iter().take(n_expected).enumerate() {
                let b = &r.bytes[8 + 12 * i..8 + 12 * i + 12];
                let (s, l) = (be32(&b[0..4]), be32(&b[8..12]));
                if o.tainted.contains(&(fam, *ih)) {
                    continue;
                }
                let (ms, ml) = o.model.scrape(fam, ih);
                if s as i64 != ms as i64 || l as i64 != ml as i64 {
                    o.fail(&["C06", "C01", "C10"], "scrape-lists-first-max-torrents", "sys-scrape-counts", format!("scrape entry {} (torrent byte {}): seeders/leechers {}/{} but reference {}/{} - entries must follow request order", i, ih[1], s, l, ms, ml));
                    return;
                }
            }
            *answered += 1;
            fold(&mut o.sig, 5 | (n_expected.min(7) as u64) << 4);
        }
    }
}

/// C20 in SYS: the operator's view (HTML report, full-scrape export) at quiescence.
fn judge_reports(o: &mut Oracle, col: &Collected, stats: &mut Stats) {
    let scn = o.scn;
    if let Some(html) = &col.html {
        // totals per family: "<th scope="row">Number of torrents</th><td>N *</td>"
        let nums: Vec<u64> = html
            .split("Number of torrents</th>")
            .skip(1)
            .chain(html.split("Number of peers</th>").skip(1))
            .filter_map(|s| s.split("<td>").nth(1))
            .filter_map(|s| s.split(' ').next())
            .filter_map(|s| s.replace(',', "").trim().parse().ok())
            .collect();
        let v4_active = scn.layout % 4 != 2 && scn.layout % 4 != 3;
        let v6_active = scn.layout % 4 != 1;
        let mut want = Vec::new();
        // order in the page: torrents(v4), torrents(v6), then peers(v4), peers(v6) by our split order
        if v4_active {
            want.push(o.model.num_torrents(Fam::V4) as u64);
        }
        if v6_active {
            want.push(o.model.num_torrents(Fam::V6) as u64);
        }
        if v4_active {
            want.push(o.model.num_peers(Fam::V4) as u64);
        }
        if v6_active {
            want.push(o.model.num_peers(Fam::V6) as u64);
        }
        stats.probe("html-report-judged");
        // in the dual-stack layout IPv4 peers live in the IPv4 maps although only IPv6 is "active"
        if scn.layout % 4 != 3 && nums != want {
            o.fail(&["C20"], "report-totals", "html-totals", format!("statistics page shows torrents/peers {:?} but stored are {:?} (order: torrents v4, v6; peers v4, v6)", nums, want));
            return;
        }
        if scn.prometheus {
            // the same collector pass feeds the prometheus gauges: a scrape of the metrics endpoint must show the same totals
            let g = |name: &str, fam: &str| col.gauges.get(&format!("{}{{ip_version={}}}", name, fam)).copied();
            let mut got = Vec::new();
            for name in ["aquatic_torrents", "aquatic_peers"] {
                for fam in ["4", "6"] {
                    if (fam == "4" && v4_active) || (fam == "6" && v6_active) {
                        got.push(g(name, fam).map(|v| v as u64));
                    }
                }
            }
            stats.probe("prometheus-gauges-judged");
            if scn.layout % 4 != 3 && got != want.iter().map(|v| Some(*v)).collect::<Vec<_>>() {
                o.fail(&["C20"], "report-totals", "prometheus-totals", format!("prometheus gauges aquatic_torrents / aquatic_peers show {:?} but stored are {:?} (order: torrents v4, v6; peers v4, v6)", got, want));
                return;
            }
        }
        if scn.peer_clients {
            // per-client table
            let mut got: BTreeMap<String, u64> = BTreeMap::new();
            if let Some(tbl) = html.split("Count</th>").nth(1) {
                for row in tbl.split("<tr>").skip(1) {
                    let cells: Vec<&str> = row.split("<td>").skip(1).filter_map(|c| c.split("</td>").next()).collect();
                    if cells.len() == 2 {
                        if let Ok(n) = cells[1].replace(',', "").trim().parse::<u64>() {
                            got.insert(cells[0].trim().to_string(), n);
                        }
                    }
                }
            }
            let mut ids: BTreeSet<H20> = BTreeSet::new();
            for l in o.model.torrents.values() {
                for (_, e) in l {
                    ids.insert(e.peer_id);
                }
            }
            let mut want: BTreeMap<String, u64> = BTreeMap::new();
            for id in ids {
                let name = aquatic_peer_id::PeerId(id).client().to_string();
                // the template escapes HTML; client names here contain none of & < > " '
                *want.entry(name).or_insert(0) += 1;
            }
            stats.probe("peer-client-table-judged");
            if got != want {
                o.fail(&["C20"], "client-tally", "html-client-table", format!("per-client table {:?} but the stored peers carry {:?}", got, want));
                return;
            }
            if scn.prometheus {
                // a client without peers keeps its last gauge until the exporter's idle timeout drops it: only clients with peers are judged
                for (name, n) in &want {
                    let v = col.gauges.get(&format!("aquatic_peer_clients{{client={}}}", name)).copied();
                    if v.map(|v| v as u64) != Some(*n) {
                        o.fail(&["C20"], "client-tally", "prometheus-client-gauge", format!("prometheus gauge aquatic_peer_clients for {:?} is {:?} but {} stored peer ids belong to that client", name, v, n));
                        return;
                    }
                }
            }
        }
    }
    if scn.exports {
        if let Some(exp) = &col.export {
            let mut got: BTreeSet<(char, String, u64, u64)> = BTreeSet::new();
            for line in exp.lines() {
                let p: Vec<&str> = line.split(' ').collect();
                if p.len() != 4 {
                    o.fail(&["C20"], "export-faithful", "export-line-format", format!("export line {:?}", line));
                    return;
                }
                got.insert((p[0].chars().next().unwrap_or('?'), p[1].to_string(), p[2].parse().unwrap_or(u64::MAX), p[3].parse().unwrap_or(u64::MAX)));
            }
            let mut want: BTreeSet<(char, String, u64, u64)> = BTreeSet::new();
            for ((fam, ih), l) in &o.model.torrents {
                let s = l.iter().filter(|(_, e)| e.seeder).count() as u64;
                let hex: String = ih.iter().map(|b| format!("{:02x}", b)).collect();
                want.insert((if *fam == Fam::V4 { '4' } else { '6' }, hex, s, l.len() as u64 - s));
            }
            stats.probe("export-file-judged");
            if got != want {
                o.fail(&["C20"], "export-faithful", "export-content", format!("export lists {:?} but stored torrents are {:?}", got, want));
            }
        }
    }
}
