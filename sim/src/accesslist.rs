//! ACCESSLIST: `update_access_list` / `AccessList::create_from_path` reading real scratch
//! files through the file seam (open errors, read errors after b bytes, short reads), and the
//! three storages' cleaning passes against the reloaded list. Fault enumeration: every reload
//! of every generated sequence is additionally repeated with a malformed line at *every* line
//! position and with a read error after *every* byte count (thorough: all; quick: sampled).
//! Decides (quick tier): C11 (reload + cleaning part; the announce gate is checked in SYS runs).
use crate::core::*;
use crate::prng::Prng;
use aquatic_common::access_list::{update_access_list, AccessListArcSwap, AccessListConfig, AccessListMode};
use aquatic_common::{CanonicalSocketAddr, ServerStartInstant, ValidUntil};
use aquatic_verif_rt::{fs, time};
use rand::rngs::SmallRng;
use rand::SeedableRng;
use serde::{Deserialize, Serialize};
use std::collections::BTreeSet;
use std::net::SocketAddr;
use std::num::NonZeroU16;
use std::sync::Arc;

type H20 = [u8; 20];

#[derive(Clone, Debug, Serialize, Deserialize, PartialEq)]
pub enum Line {
    /// hash of torrent `t`; `style`: bit0 upper-case, bit1 leading spaces, bit2 trailing spaces/tab, bit3 CRLF
    Good { t: u8, style: u8 },
    Blank { ws: bool },
    /// kind 0: 39 hex digits, 1: 41 hex digits, 2: non-hex character, 3: invalid UTF-8, 4: "0x" prefix, 5: inner space
    Bad { kind: u8 },
}

#[derive(Clone, Debug, Serialize, Deserialize, PartialEq)]
pub enum Fault {
    None,
    Missing,
    OpenDenied,
    ReadErrorAfter { bytes: u32 },
    ShortReads { chunk: u8 },
}

#[derive(Clone, Debug, Serialize, Deserialize, PartialEq)]
pub enum Step {
    Reload { lines: Vec<Line>, fault: Fault, final_newline: bool },
    /// populate every torrent in all three storages, clean them, compare with the list in force
    CleanAll,
}

#[derive(Clone, Debug, Serialize, Deserialize)]
pub struct Scn {
    /// 0 off, 1 allow, 2 deny
    pub mode: u8,
    pub steps: Vec<Step>,
}

pub const N_TORRENTS: u8 = 6;

pub fn info_hash(t: u8) -> H20 {
    let mut h = [0xabu8; 20];
    h[0] = t;
    h[1] = 0xf0 | t; // makes upper/lower case differ
    h[19] = t.wrapping_mul(29);
    h
}

fn render(lines: &[Line], final_newline: bool) -> Vec<u8> {
    let mut out = Vec::new();
    for (i, l) in lines.iter().enumerate() {
        let mut crlf = false;
        match l {
            Line::Good { t, style } => {
                let hex: String = info_hash(*t).iter().map(|b| if style & 1 != 0 { format!("{:02X}", b) } else { format!("{:02x}", b) }).collect();
                if style & 2 != 0 {
                    out.extend_from_slice(b"  ");
                }
                out.extend_from_slice(hex.as_bytes());
                if style & 4 != 0 {
                    out.extend_from_slice(b" \t");
                }
                crlf = style & 8 != 0;
            }
            Line::Blank { ws } => {
                if *ws {
                    out.extend_from_slice(b"   ");
                }
            }
            Line::Bad { kind } => {
                let hex: String = info_hash(1).iter().map(|b| format!("{:02x}", b)).collect();
                match kind % 6 {
                    0 => out.extend_from_slice(&hex.as_bytes()[..39]),
                    1 => {
                        out.extend_from_slice(hex.as_bytes());
                        out.push(b'a');
                    }
                    2 => {
                        out.extend_from_slice(&hex.as_bytes()[..39]);
                        out.push(b'g');
                    }
                    3 => {
                        out.extend_from_slice(&hex.as_bytes()[..38]);
                        out.extend_from_slice(&[0xff, 0xfe]);
                    }
                    4 => {
                        out.extend_from_slice(b"0x");
                        out.extend_from_slice(&hex.as_bytes()[..38]);
                    }
                    _ => {
                        out.extend_from_slice(&hex.as_bytes()[..20]);
                        out.push(b' ');
                        out.extend_from_slice(&hex.as_bytes()[20..39]);
                    }
                }
            }
        }
        if i + 1 < lines.len() || final_newline {
            if crlf {
                out.push(b'\r');
            }
            out.push(b'\n');
        }
    }
    out
}

/// Independent parser: the set the file denotes, or None if any line is malformed.
fn parse_model(lines: &[Line]) -> Option<BTreeSet<H20>> {
    let mut s = BTreeSet::new();
    for l in lines {
        match l {
            Line::Good { t, .. } => {
                s.insert(info_hash(*t));
            }
            Line::Blank { .. } => {}
            Line::Bad { .. } => return None,
        }
    }
    Some(s)
}

pub struct AccessListHarness;

struct Exec {
    mode: AccessListMode,
    mode_n: u8,
    cfg: AccessListConfig,
    arc: Arc<AccessListArcSwap>,
    current: BTreeSet<H20>,
    violations: Vec<Violation>,
    fp: u64,
    sig: u64,
    ok_reloads: u64,
    failed_reloads: u64,
}

fn fold(h: &mut u64, x: u64) {
    *h = (*h ^ x).wrapping_mul(0x100000001b3).rotate_left(9);
}

impl Exec {
    fn allows_model(&self, set: &BTreeSet<H20>, ih: &H20) -> bool {
        match self.mode_n {
            1 => set.contains(ih),
            2 => !set.contains(ih),
            _ => true,
        }
    }

    fn probe_all(&mut self, when: &str, stats: &mut Stats) {
        let loaded = self.arc.load();
        for t in 0..N_TORRENTS + 1 {
            let ih = info_hash(t);
            let got = loaded.allows(self.mode, &ih);
            let exp = self.allows_model(&self.current, &ih);
            stats.evaluations += 1;
            fold(&mut self.fp, got as u64);
            if got != exp {
                self.violations.push(Violation::new(
                    "C11",
                    "decisions-follow-last-good-list",
                    if when.contains("failed") { "failed-reload-changed-list" } else { "decision-mismatch" },
                    format!("{}: info hash of torrent {} allowed={} but the last successfully loaded list says {}", when, t, got, exp),
                ));
                return;
            }
        }
    }

    fn reload(&mut self, lines: &[Line], fault: &Fault, final_newline: bool, stats: &mut Stats) {
        let path = self.cfg.path.clone();
        let content = render(lines, final_newline);
        let _ = std::fs::remove_file(&path);
        let mut ff = fs::FsFaults::default();
        let mut io_fails = false;
        match fault {
            Fault::None => std::fs::write(&path, &content).unwrap(),
            Fault::Missing => {
                io_fails = true;
            }
            Fault::OpenDenied => {
                std::fs::write(&path, &content).unwrap();
                ff.open_error = Some((path.clone(), std::io::ErrorKind::PermissionDenied));
                io_fails = true;
            }
            Fault::ReadErrorAfter { bytes } => {
                std::fs::write(&path, &content).unwrap();
                // an error is only hit if the reader needs bytes at or beyond the position
                let b = (*bytes as usize).min(content.len());
                ff.read_error_after = Some((path.clone(), b));
                io_fails = true; // EOF detection needs one more read, which fails
            }
            Fault::ShortReads { chunk } => {
                std::fs::write(&path, &content).unwrap();
                ff.max_read_chunk = Some((*chunk).max(1) as usize);
            }
        }
        fs::reset_steps();
        fs::set_faults(ff);
        let cfg = self.cfg.clone();
        let arc = self.arc.clone();
        let r = catch(move || update_access_list(&cfg, &arc));
        fs::set_faults(fs::FsFaults::default());
        stats.evaluations += 1;
        let parsed = parse_model(lines);
        let expect_ok = self.mode_n == 0 || (!io_fails && parsed.is_some());
        match r {
            Err(m) => {
                self.violations.push(Violation::new("C11", "reload-panic", "reload-panic", format!("update_access_list panicked: {}", m)));
                self.violations.push(Violation::new("C12", "reload-panic", "reload-panic", format!("update_access_list panicked: {}", m)));
                return;
            }
            Ok(res) => {
                fold(&mut self.fp, res.is_ok() as u64);
                if res.is_ok() != expect_ok {
                    self.violations.push(Violation::new(
                        "C11",
                        "reload-result",
                        if expect_ok { "good-file-rejected" } else { "bad-reload-accepted" },
                        format!("reload of {:?} with fault {:?}: update_access_list returned {} but expected {}", String::from_utf8_lossy(&content), fault, if res.is_ok() { "Ok" } else { "Err" }, if expect_ok { "Ok" } else { "Err" }),
                    ));
                    return;
                }
                if res.is_ok() && self.mode_n != 0 {
                    self.current = parsed.unwrap();
                    self.ok_reloads += 1;
                    stats.probe("reload-ok");
                } else if res.is_err() {
                    self.failed_reloads += 1;
                    stats.probe(match fault {
                        Fault::None => "reload-failed-bad-line",
                        Fault::Missing => "reload-failed-missing-file",
                        Fault::OpenDenied => "reload-failed-open-denied",
                        Fault::ReadErrorAfter { .. } => "reload-failed-read-error",
                        Fault::ShortReads { .. } => "reload-failed-bad-line",
                    });
                }
                fold(&mut self.sig, 1 | (res.is_ok() as u64) << 4 | (lines.len().min(15) as u64) << 8 | (matches!(fault, Fault::None) as u64) << 12);
            }
        }
        let when = if expect_ok { "after a successful reload" } else { "after a failed reload" };
        self.probe_all(when, stats);
    }

    /// All three storages: one peer in every torrent, clean, then only permitted torrents remain.
    fn clean_all(&mut self, stats: &mut Stats) {
        let start = ServerStartInstant::new();
        let src4: SocketAddr = "10.0.0.1:4000".parse().unwrap();
        let expect: Vec<bool> = (0..N_TORRENTS).map(|t| self.allows_model(&self.current, &info_hash(t))).collect();
        let n_exp = expect.iter().filter(|b| **b).count();
        let mode = self.mode;
        // ---- UDP
        {
            use aquatic_udp::config::Config;
            use aquatic_udp_protocol::*;
            let mut cfg = Config::default();
            cfg.access_list.mode = mode;
            cfg.statistics.write_html_to_file = true;
            let maps = aquatic_udp::swarm::TorrentMaps::default();
            let (tx, _rx) = crossbeam_channel::unbounded();
            let mut rng = SmallRng::seed_from_u64(1);
            let vu = ValidUntil::new(start, 1000).unwrap();
            for t in 0..N_TORRENTS {
                let req = AnnounceRequest {
                    connection_id: ConnectionId::new(0),
                    action_placeholder: Default::default(),
                    transaction_id: TransactionId::new(1),
                    info_hash: InfoHash(info_hash(t)),
                    peer_id: PeerId([1; 20]),
                    bytes_downloaded: NumberOfBytes::new(0),
                    bytes_left: NumberOfBytes::new(1),
                    bytes_uploaded: NumberOfBytes::new(0),
                    event: AnnounceEvent::Started,
                    ip_address: Ipv4AddrBytes([0; 4]),
                    key: PeerKey::new(0),
                    peers_wanted: NumberOfPeers::new(0),
                    port: Port::new(NonZeroU16::new(1000).unwrap()),
                };
                maps.announce(&cfg, &tx, &mut rng, &req, CanonicalSocketAddr::new(src4), vu);
            }
            let st: aquatic_udp::common::CachePaddedArc<aquatic_udp::common::IpVersionStatistics<aquatic_udp::common::SwarmWorkerStatistics>> = Default::default();
            maps.clean_and_update_statistics(&cfg, &st, &tx, &self.arc, start.seconds_elapsed().unwrap(), false);
            stats.evaluations += 1;
            let resp = maps.scrape(ScrapeRequest { connection_id: ConnectionId::new(0), transaction_id: TransactionId::new(2), info_hashes: (0..N_TORRENTS).map(|t| InfoHash(info_hash(t))).collect() }, CanonicalSocketAddr::new(src4));
            for (t, s) in resp.torrent_stats.iter().enumerate() {
                let present = s.leechers.0.get() == 1;
                if present != expect[t] {
                    self.violations.push(Violation::new("C11", "clean-removes-exactly-forbidden", if present { "udp-forbidden-torrent-kept" } else { "udp-permitted-torrent-removed" }, format!("UDP: after reload + clean, torrent {} present={} but the list in force says allowed={}", t, present, expect[t])));
                    return;
                }
            }
            let tor = st.ipv4.torrents.load(std::sync::atomic::Ordering::Relaxed);
            if tor != n_exp {
                self.violations.push(Violation::new("C11", "clean-removes-exactly-forbidden", "udp-torrent-count", format!("UDP: {} torrents remain after clean, {} are permitted", tor, n_exp)));
                return;
            }
        }
        // ---- HTTP
        {
            use aquatic_http::config::Config;
            use aquatic_http_protocol::common::{AnnounceEvent, InfoHash, PeerId};
            use aquatic_http_protocol::request::{AnnounceRequest, ScrapeRequest};
            let mut cfg = Config::default();
            cfg.access_list.mode = mode;
            let mut maps = aquatic_http::verif_export::TorrentMaps::new(0);
            let mut rng = SmallRng::seed_from_u64(1);
            let vu = ValidUntil::new(start, 1000).unwrap();
            for t in 0..N_TORRENTS {
                let req = AnnounceRequest { info_hash: InfoHash(info_hash(t)), peer_id: PeerId([1; 20]), port: 1000, bytes_uploaded: 0, bytes_downloaded: 0, bytes_left: 1, event: AnnounceEvent::Started, numwant: None, key: None };
                maps.handle_announce_request(&cfg, &mut rng, vu, CanonicalSocketAddr::new(src4), req);
            }
            maps.clean(&cfg, &self.arc, start);
            stats.evaluations += 1;
            let resp = maps.handle_scrape_request(&cfg, CanonicalSocketAddr::new(src4), ScrapeRequest { info_hashes: (0..N_TORRENTS).map(|t| InfoHash(info_hash(t))).collect() });
            for t in 0..N_TORRENTS {
                let present = resp.files.get(&InfoHash(info_hash(t))).map_or(false, |s| s.incomplete == 1);
                if present != expect[t as usize] {
                    self.violations.push(Violation::new("C11", "clean-removes-exactly-forbidden", if present { "http-forbidden-torrent-kept" } else { "http-permitted-torrent-removed" }, format!("HTTP: after reload + clean, torrent {} present={} but allowed={}", t, present, expect[t as usize])));
                    return;
                }
            }
            if maps.ipv4.verif_num_torrents() != n_exp {
                self.violations.push(Violation::new("C11", "clean-removes-exactly-forbidden", "http-torrent-count", format!("HTTP: {} torrents remain after clean, {} are permitted", maps.ipv4.verif_num_torrents(), n_exp)));
                return;
            }
        }
        // ---- WS
        {
            use aquatic_ws::common::{ConnectionId, ConsumerId, InMessageMeta, IpVersion, PendingScrapeId};
            use aquatic_ws::config::Config;
            use aquatic_ws_protocol::common::*;
            use aquatic_ws_protocol::incoming::{AnnounceEvent, AnnounceRequest, ScrapeRequest, ScrapeRequestInfoHashes};
            use aquatic_ws_protocol::outgoing::OutMessage;
            let mut cfg = Config::default();
            cfg.access_list.mode = mode;
            let mut maps = aquatic_ws::workers::swarm::verif_export::TorrentMaps::new(0);
            let mut rng = SmallRng::seed_from_u64(1);
            let mut sm: slotmap::DenseSlotMap<ConnectionId, ()> = slotmap::DenseSlotMap::with_key();
            let id = sm.insert(());
            let meta = InMessageMeta { out_message_consumer_id: ConsumerId(0), connection_id: id, ip_version: IpVersion::V4, pending_scrape_id: Some(PendingScrapeId(0)) };
            let mut out = Vec::new();
            for t in 0..N_TORRENTS {
                let req = AnnounceRequest { action: AnnounceAction::Announce, info_hash: InfoHash(info_hash(t)), peer_id: PeerId([1; 20]), bytes_left: Some(1), event: Some(AnnounceEvent::Started), offers: None, numwant: None, answer: None, answer_to_peer_id: None, answer_offer_id: None };
                maps.handle_announce_request(&cfg, &mut rng, &mut out, start, meta, req);
            }
            maps.clean(&cfg, &self.arc, start);
            stats.evaluations += 1;
            out.clear();
            maps.handle_scrape_request(&cfg, &mut out, meta, ScrapeRequest { action: ScrapeAction::Scrape, info_hashes: Some(ScrapeRequestInfoHashes::Multiple((0..N_TORRENTS).map(|t| InfoHash(info_hash(t))).collect())) });
            if let Some((_, OutMessage::ScrapeResponse(r))) = out.first() {
                for t in 0..N_TORRENTS {
                    let present = r.files.get(&InfoHash(info_hash(t))).map_or(false, |s| s.incomplete == 1);
                    if present != expect[t as usize] {
                        self.violations.push(Violation::new("C11", "clean-removes-exactly-forbidden", if present { "ws-forbidden-torrent-kept" } else { "ws-permitted-torrent-removed" }, format!("WS: after reload + clean, torrent {} present={} but allowed={}", t, present, expect[t as usize])));
                        return;
                    }
                }
            }
            if maps.verif_num_torrents().0 != n_exp {
                self.violations.push(Violation::new("C11", "clean-removes-exactly-forbidden", "ws-torrent-count", format!("WS: {} torrents remain after clean, {} are permitted", maps.verif_num_torrents().0, n_exp)));
                return;
            }
        }
        if n_exp < N_TORRENTS as usize {
            stats.probe("clean-removed-forbidden-torrents");
        }
        fold(&mut self.sig, 2 | (n_exp as u64) << 4);
    }
}

impl Harness for AccessListHarness {
    type Scn = Scn;
    const NAME: &'static str = "accesslist";

    fn generate(seed: u64, tier: Tier, _prop: &str) -> Scn {
        let mut r = Prng::stream(seed, "scenario");
        let mode = *r.pick(&[1u8, 1, 2, 2, 0]);
        let n = match tier {
            Tier::Quick => r.range(3, 10),
            Tier::Thorough => r.range(3, 24),
        };
        let mut steps = Vec::new();
        for _ in 0..n {
            if r.chance(250) {
                steps.push(Step::CleanAll);
                continue;
            }
            let n_lines = r.range(0, 12) as usize;
            let mut lines: Vec<Line> = (0..n_lines)
                .map(|_| match r.below(10) {
                    0 => Line::Blank { ws: r.chance(500) },
                    _ => Line::Good { t: r.below(N_TORRENTS as u64) as u8, style: r.below(16) as u8 },
                })
                .collect();
            let fault = match r.below(12) {
                0 => Fault::Missing,
                1 => Fault::OpenDenied,
                2 | 3 => Fault::ReadErrorAfter { bytes: r.below(600) as u32 },
                4 | 5 => Fault::ShortReads { chunk: r.range(1, 50) as u8 },
                _ => Fault::None,
            };
            // a malformed line at a random position (the fault enumeration below covers all positions)
            if r.chance(300) {
                let pos = r.below(lines.len() as u64 + 1) as usize;
                lines.insert(pos, Line::Bad { kind: r.below(6) as u8 });
            }
            steps.push(Step::Reload { lines, fault, final_newline: r.chance(800) });
            if r.chance(400) {
                steps.push(Step::CleanAll);
            }
        }
        Scn { mode, steps }
    }

    fn execute(scn: &Scn, _prop: &str, stats: &mut Stats) -> Outcome {
        time::set_manual_secs(5);
        foldhash::verif_reset_seed_counter();
        fs::reset();
        let dir = fs::scratch_dir();
        let mode = match scn.mode {
            1 => AccessListMode::Allow,
            2 => AccessListMode::Deny,
            _ => AccessListMode::Off,
        };
        let cfg = AccessListConfig { mode, path: dir.join("access-list.txt") };
        let mut ex = Exec { mode, mode_n: scn.mode, cfg, arc: Arc::new(AccessListArcSwap::default()), current: BTreeSet::new(), violations: Vec::new(), fp: 0, sig: 0, ok_reloads: 0, failed_reloads: 0 };
        for st in &scn.steps {
            if !ex.violations.is_empty() {
                break;
            }
            match st {
                Step::Reload { lines, fault, final_newline } => ex.reload(lines, fault, *final_newline, stats),
                Step::CleanAll => ex.clean_all(stats),
            }
        }
        // ---- fault enumeration over the last good reload: bad line at every position,
        //      read error after every byte count (systematic, not sampled)
        if ex.violations.is_empty() && scn.mode != 0 {
            if let Some(Step::Reload { lines, final_newline, .. }) = scn.steps.iter().rev().find(|s| matches!(s, Step::Reload { lines, .. } if parse_model(lines).is_some())) {
                let good: Vec<Line> = lines.clone();
                // establish the good list first
                ex.reload(&good, &Fault::None, *final_newline, stats);
                for pos in 0..=good.len() {
                    for kind in 0..6u8 {
                        if !ex.violations.is_empty() {
                            break;
                        }
                        let mut l = good.clone();
                        l.insert(pos, Line::Bad { kind });
                        ex.reload(&l, &Fault::None, *final_newline, stats);
                        stats.probe("enumerated-bad-line-position");
                    }
                }
                let len = render(&good, *final_newline).len() as u32;
                for b in 0..=len {
                    if !ex.violations.is_empty() {
                        break;
                    }
                    ex.reload(&good, &Fault::ReadErrorAfter { bytes: b }, *final_newline, stats);
                    stats.probe("enumerated-read-error-position");
                }
                if ex.violations.is_empty() {
                    ex.clean_all(stats);
                }
            }
        }
        for (k, v) in fs::fired() {
            stats.fault(k, v);
        }
        let nontrivial = ex.ok_reloads > 0 && ex.failed_reloads > 0;
        Outcome { violations: ex.violations, fingerprint: ex.fp, signature: if nontrivial { Some(ex.sig) } else { None } }
    }

    fn size(scn: &Scn) -> usize {
        scn.steps.iter().map(|s| if let Step::Reload { lines, .. } = s { 1 + lines.len() } else { 1 }).sum()
    }

    fn shrink(scn: &Scn) -> Vec<Scn> {
        let mut out = Vec::new();
        for (a, b) in chunk_removals(scn.steps.len()) {
            let mut s = scn.clone();
            s.steps.drain(a..b);
            out.push(s);
        }
        for (i, st) in scn.steps.iter().enumerate() {
            if let Step::Reload { lines, fault, final_newline } = st {
                for k in 0..lines.len() {
                    let mut s = scn.clone();
                    let mut l = lines.clone();
                    l.remove(k);
                    s.steps[i] = Step::Reload { lines: l, fault: fault.clone(), final_newline: *final_newline };
                    out.push(s);
                }
                if *fault != Fault::None {
                    let mut s = scn.clone();
                    s.steps[i] = Step::Reload { lines: lines.clone(), fault: Fault::None, final_newline: *final_newline };
                    out.push(s);
                }
                for (k, l) in lines.iter().enumerate() {
                    if let Line::Good { t, style } = l {
                        if *style != 0 {
                            let mut s = scn.clone();
                            let mut l2 = lines.clone();
                            l2[k] = Line::Good { t: *t, style: 0 };
                            s.steps[i] = Step::Reload { lines: l2, fault: fault.clone(), final_newline: *final_newline };
                            out.push(s);
                        }
                    }
                }
            }
        }
        out
    }
}
