//! Reference trackers (oracles). Deliberately naive: vectors and maps, no optimisation.
use serde::{Deserialize, Serialize};
use std::collections::BTreeMap;
use std::net::IpAddr;

#[derive(Clone, Copy, PartialEq, Eq, Hash, PartialOrd, Ord, Debug, Serialize, Deserialize)]
pub enum Fam {
    V4,
    V6,
}

impl Fam {
    pub fn of(ip: &IpAddr) -> Fam {
        if ip.is_ipv4() {
            Fam::V4
        } else {
            Fam::V6
        }
    }
}

pub type Key = (IpAddr, u16);
pub type Hash20 = [u8; 20];

#[derive(Clone, Debug, PartialEq)]
pub struct Entry {
    pub seeder: bool,
    /// whole seconds since tracker start; the entry is gone after the first clean with now >= deadline
    pub deadline: u64,
    pub peer_id: Hash20,
}

/// Reference tracker for UDP and HTTP: one entry per (ip, port), torrent and family.
#[derive(Clone, Debug, Default)]
pub struct RefTracker {
    pub torrents: BTreeMap<(Fam, Hash20), Vec<(Key, Entry)>>,
}

pub struct AnnounceView {
    pub seeders: usize,
    pub leechers: usize,
    /// every stored peer of the torrent except the announcer itself
    pub candidates: Vec<Key>,
    /// the announcer's previous entry, if any
    pub previous: Option<Entry>,
}

impl RefTracker {
    /// Remove the announcer, compute what the reply may contain, insert unless stopped.
    pub fn announce(&mut self, fam: Fam, ih: Hash20, key: Key, stopped: bool, seeder: bool, deadline: u64, peer_id: Hash20) -> AnnounceView {
        let list = self.torrents.entry((fam, ih)).or_default();
        let previous = match list.iter().position(|(k, _)| *k == key) {
            Some(i) => Some(list.remove(i).1),
            None => None,
        };
        let seeders = list.iter().filter(|(_, e)| e.seeder).count();
        let leechers = list.len() - seeders;
        let candidates = list.iter().map(|(k, _)| *k).collect();
        if !stopped {
            list.push((key, Entry { seeder, deadline, peer_id }));
        }
        if list.is_empty() {
            self.torrents.remove(&(fam, ih));
        }
        AnnounceView { seeders, leechers, candidates, previous }
    }

    pub fn scrape(&self, fam: Fam, ih: &Hash20) -> (usize, usize) {
        match self.torrents.get(&(fam, *ih)) {
            Some(l) => {
                let s = l.iter().filter(|(_, e)| e.seeder).count();
                (s, l.len() - s)
            }
            None => (0, 0),
        }
    }

    /// Drop expired entries and forbidden torrents. Returns the removed entries.
    pub fn clean(&mut self, now: u64, allowed: &dyn Fn(&Hash20) -> bool) -> Vec<((Fam, Hash20), Key, Entry)> {
        let mut removed = Vec::new();
        let keys: Vec<(Fam, Hash20)> = self.torrents.keys().copied().collect();
        for tk in keys {
            if !allowed(&tk.1) {
                for (k, e) in self.torrents.remove(&tk).unwrap() {
                    removed.push((tk, k, e));
                }
                continue;
            }
            let list = self.torrents.get_mut(&tk).unwrap();
            let mut i = 0;
            while i < list.len() {
                if list[i].1.deadline <= now {
                    let (k, e) = list.remove(i);
                    removed.push((tk, k, e));
                } else {
                    i += 1;
                }
            }
            if list.is_empty() {
                self.torrents.remove(&tk);
            }
        }
        removed
    }

    pub fn num_torrents(&self, fam: Fam) -> usize {
        self.torrents.iter().filter(|((f, _), l)| *f == fam && !l.is_empty()).count()
    }
    pub fn num_peers(&self, fam: Fam) -> usize {
        self.torrents.iter().filter(|((f, _), _)| *f == fam).map(|(_, l)| l.len()).sum()
    }
    pub fn peers_with_id(&self, id: &Hash20) -> usize {
        self.torrents.values().map(|l| l.iter().filter(|(_, e)| e.peer_id == *id).count()).sum()
    }
    pub fn size(&self, fam: Fam, ih: &Hash20) -> usize {
        self.torrents.get(&(fam, *ih)).map_or(0, |l| l.len())
    }
    /// hash of the abstract state (for the "distinct states" measure)
    pub fn state_hash(&self) -> u64 {
        let mut h: u64 = 0xcbf29ce484222325;
        let mut mixin = |x: u64| {
            h = (h ^ x).wrapping_mul(0x100000001b3).rotate_left(7);
        };
        for ((f, ih), l) in &self.torrents {
            mixin(*f as u64);
            mixin(ih[0] as u64 | (ih[1] as u64) << 8);
            let mut ks: Vec<_> = l.iter().map(|(k, e)| (k.0, k.1, e.seeder)).collect();
            ks.sort();
            for (ip, port, s) in ks {
                let ipn = match ip {
                    IpAddr::V4(a) => u32::from(a) as u64,
                    IpAddr::V6(a) => u128::from(a) as u64,
                };
                mixin(ipn);
                mixin(port as u64 | (s as u64) << 20);
            }
        }
        h
    }
}

/// Effective peer limit: non-positive / absent request means the configured maximum.
pub fn limit_of(requested: Option<i64>, max: usize) -> usize {
    match requested {
        Some(n) if n > 0 => (n as u64).min(max as u64) as usize,
        _ => max,
    }
}

/// C02 clauses shared by UDP and HTTP peer lists. Returns (check id, detail) on failure.
pub fn check_peer_list(returned: &[Key], candidates: &[Key], requester: &Key, limit: usize) -> Result<(), (&'static str, String)> {
    let mut seen = std::collections::BTreeSet::new();
    for p in returned {
        if !seen.insert(*p) {
            return Err(("peers-distinct", format!("peer {:?} returned twice", p)));
        }
        if p == requester {
            return Err(("peers-no-requester", format!("the requester {:?} is in its own reply", p)));
        }
        if !candidates.contains(p) {
            return Err(("peers-stored-member", format!("returned peer {:?} is not a stored member of this torrent and family (stored others: {})", p, candidates.len())));
        }
    }
    if returned.len() > limit {
        return Err(("peers-bound", format!("{} peers returned, limit {}", returned.len(), limit)));
    }
    if candidates.len() <= limit {
        if returned.len() != candidates.len() {
            return Err(("peers-all-if-fit", format!("{} other members fit the limit {}, but {} returned", candidates.len(), limit, returned.len())));
        }
    } else if returned.len() + 1 < limit {
        return Err(("peers-at-least", format!("{} other members exceed the limit {}, but only {} returned (< limit-1)", candidates.len(), limit, returned.len())));
    }
    Ok(())
}
