//! WS-SYS: the real `aquatic_ws::run(config)` — socket workers (accept, ConnectionRunner,
//! reader / writer, after_close, receive_out_messages, connection cleaning), swarm workers
//! (request and control streams), signal thread and watchdog — over the glommio stand-in on
//! the discrete-event engine. Clients are tungstenite WebSocket clients over the simulated
//! blocking TCP stream; they build JSON by hand (serde_json values) and judge replies as
//! `serde_json::Value`s. Decides: C17, C03 (WS), C19 (WS), C12 (WS), thorough parts of C08/C09/C11.
use crate::core::*;
use crate::prng::Prng;
use crate::udp_store::{canon_ip, src_ip};
use aquatic_verif_rt::engine::{self, EngineCfg, Strategy};
use aquatic_verif_rt::net::tcp::{self, ClientStream, Pick};
use aquatic_verif_rt::{fault, fs, signal, thread};
use aquatic_ws::config::Config;
use serde::{Deserialize, Serialize};
use serde_json::{json, Value};
use std::collections::{BTreeMap, BTreeSet};
use std::net::SocketAddr;
use std::sync::{Arc, Mutex};
use std::time::Duration;
use tungstenite::Message;

#[derive(Clone, Debug, Serialize, Deserialize, PartialEq)]
pub enum WOp {
    Sleep { ms: u32 },
    /// announce own peer id on torrent `t` with `offers` offers; `ansp`: also answer the k-th
    /// offer received so far on this connection (if any)
    /// `nowait`: do not wait for the reply (used right before closing: close races the announce)
    Ann { t: u8, ev: Option<u8>, left: Option<u64>, offers: u8, ansp: Option<u8>, #[serde(default)] nowait: bool },
    /// announce torrent `t` with the peer id of connection `victim` (ownership rule)
    Hijack { t: u8, victim: u8, ev: Option<u8> },
    /// announce torrent `t` (already announced, not stopped) with a second peer id
    SecondPid { t: u8 },
    /// answer an offer that was never made: (to connection's peer, offer id)
    BogusAnswer { t: u8, to: u8, oid: u8 },
    Scr { ts: Option<Vec<u8>> },
    /// read whatever arrives for `ms`
    Poll { ms: u32 },
    /// kind 0 invalid JSON, 1 binary junk, 2 wrong-length info hash, 3 deep nesting, 4 ping frame, 5 non-byte character in id,
    /// 6 / 7 identifiers of 21 and 60 characters
    Bad { kind: u8 },
    /// orderly close frame, then the connection ends
    Close,
    /// abrupt TCP reset, then the connection ends
    Reset,
}

#[derive(Clone, Debug, Serialize, Deserialize, PartialEq)]
pub struct WConn {
    pub v6: bool,
    pub ac: u8,
    pub h: u16,
    pub pick: u8,
    pub start_ms: u32,
    pub script: Vec<WOp>,
}

#[derive(Clone, Debug, Serialize, Deserialize, PartialEq)]
pub enum PF {
    Panic { thread: String, n: u64 },
    PanicAt { thread: String, ms: u64 },
    BindFail { thread: String },
    EndLoop { thread: String, n: u64 },
    SignalsClose { ms: u64 },
    SpawnFail { thread: String },
}

#[derive(Clone, Debug, Serialize, Deserialize)]
pub struct Scn {
    pub socket_workers: u8,
    pub swarm_workers: u8,
    /// 0: IPv4 listener; 1: IPv6-only listener; 2: dual-stack IPv6 listener
    pub layout: u8,
    pub max_offers: usize,
    pub max_scrape_torrents: usize,
    pub max_peer_age: u32,
    pub max_offer_age: u32,
    pub cleaning_interval: u64,
    pub conn_cleaning_interval: u64,
    pub max_connection_idle: u32,
    pub access_mode: u8,
    pub access_list: Vec<u8>,
    pub sched_strategy: u8,
    pub sched_seed: u64,
    pub entropy_seed: u64,
    pub yield_permille: u32,
    pub duration_ms: u64,
    pub conns: Vec<WConn>,
    pub faults: Vec<PF>,
    /// access-list reloads: (at ms, new list, file has a malformed line = the reload must fail)
    #[serde(default)]
    pub reloads: Vec<(u32, Vec<u8>, bool)>,
    /// clients do not wait for the tracker to come up: they connect the instant a listener exists
    #[serde(default)]
    pub early: bool,
    /// expiry probe: (max_peer_age, torrent_cleaning_interval) in seconds; two scripted connections work torrent 7 and
    /// its scrape counts are judged against deadline windows (the final quiescent scrape is not judged then)
    #[serde(default)]
    pub probe: Option<(u32, u64)>,
    /// privileges.drop_privileges: the socket workers rendezvous at a barrier after binding (the chroot itself is not simulated)
    #[serde(default)]
    pub drop_priv: bool,
    /// metrics.run_prometheus_endpoint: the metrics worker (a simulated exporter thread, rt::metrics) is spawned and
    /// registered by the real run(); the trackers' metrics code (gauges, counters, torrent-count timer) runs for real
    #[serde(default)]
    pub prometheus: bool,
    #[serde(default)]
    pub torrent_count_update_interval: u64,
    /// accept attempts (1-based, counted over all listeners, only those that find a connection waiting) that fail once
    /// with ECONNABORTED; the waiting connection stays in the backlog and must be accepted by the next attempt
    #[serde(default)]
    pub accept_faults: Vec<u64>,
}

/// 20-byte ids as the reference client sends them: one character per byte (U+0000-U+00FF)
fn id_string(bytes: &[u8; 20]) -> String {
    bytes.iter().map(|b| *b as char).collect()
}
pub fn info_hash(t: u8) -> [u8; 20] {
    let mut h = [b'h'; 20];
    h[0] = t; // first byte decides the swarm worker
    h[1] = 0xe9; // a non-ASCII byte travels as a two-byte UTF-8 character
    h[19] = b'0' + t % 10;
    h
}
pub fn conn_peer_id(c: usize, second: bool) -> [u8; 20] {
    let mut p = [b'p'; 20];
    p[0] = b'-';
    p[1] = b'W';
    p[2] = b'T';
    p[18] = if second { b'2' } else { b'1' };
    p[19] = b'A' + c as u8;
    p
}
fn offer_id(c: usize, n: u32) -> [u8; 20] {
    let mut o = [b'o'; 20];
    o[17] = b'a' + c as u8;
    o[18] = b'a' + (n / 26) as u8 % 26;
    o[19] = b'a' + (n % 26) as u8;
    o
}

#[derive(Clone, Debug)]
enum Ev {
    /// `pidc`: whose peer id is used (connection index, second id = 100 + own index); `refused`: this connection
    /// already uses another peer id for the torrent (the tracker must refuse and end the connection)
    SentAnn { t: u8, stopped: bool, seeder: bool, offers: Vec<String>, seq: u64, pidc: usize, refused: bool, nowait: bool },
    SentScr { ts: Option<Vec<u8>>, seq: u64 },
    SentAnswer { t: u8, to_pid: String, oid: String, sdp: String, seq: u64, genuine: bool },
    SentBad { seq: u64 },
    GotAnnounceReply { t: u8, complete: i64, incomplete: i64, seq: u64 },
    GotScrapeReply { files: BTreeMap<u8, (i64, i64)>, seq: u64 },
    GotOffer { t: u8, from_pid: String, oid: String, sdp: String, seq: u64 },
    GotAnswer { t: u8, from_pid: String, oid: String, sdp: String, seq: u64 },
    GotError { reason: String, seq: u64 },
    GotOther { what: String },
    Closed { by_client: bool, seq: u64 },
    HandshakeFailed { why: String },
    /// simulated time of the event that follows (pushed before every received message, close and open)
    At { ns: u64 },
    /// found closed by the tracker only after the observers had looked (closed at some point in the last 3.7 s)
    ClosedLate { ns: u64 },
}

#[derive(Default)]
struct Collected {
    logs: Vec<Vec<Ev>>,
    run_returned: Option<(u64, Result<(), String>)>,
    end_ns: u64,
    final_scrape: Vec<(bool, BTreeMap<u8, (i64, i64)>)>,
}

fn permits(mode: u8, list: &[u8], t: u8) -> bool {
    match mode {
        1 => list.contains(&t),
        2 => !list.contains(&t),
        _ => true,
    }
}

/// torrents whose permission differs between the initial list and some list a (well-formed) reload installs
fn dynamic_torrents(scn: &Scn) -> BTreeSet<u8> {
    let mut d = BTreeSet::new();
    for (_, l, bad) in &scn.reloads {
        if !*bad {
            for t in 0..16u8 {
                if permits(scn.access_mode, l, t) != permits(scn.access_mode, &scn.access_list, t) {
                    d.insert(t);
                }
            }
        }
    }
    d
}

fn list_file(list: &[u8], bad: bool) -> String {
    let mut s = String::new();
    for t in list {
        for b in info_hash(*t) {
            s.push_str(&format!("{:02x}", b));
        }
        s.push('\n');
    }
    if bad {
        s.push_str("nope\n");
    }
    s
}

fn build_config(scn: &Scn, dir: &std::path::Path) -> Config {
    let mut c = Config::default();
    c.privileges.drop_privileges = scn.drop_priv;
    c.metrics.run_prometheus_endpoint = scn.prometheus;
    if scn.torrent_count_update_interval > 0 {
        c.metrics.torrent_count_update_interval = scn.torrent_count_update_interval;
    }
    c.socket_workers = scn.socket_workers.max(1) as usize;
    c.swarm_workers = scn.swarm_workers.max(1) as usize;
    match scn.layout % 3 {
        0 => c.network.address = "0.0.0.0:3000".parse().unwrap(),
        1 => {
            c.network.address = "[::]:3000".parse().unwrap();
            c.network.only_ipv6 = true;
        }
        _ => {
            c.network.address = "[::]:3000".parse().unwrap();
            c.network.only_ipv6 = false;
        }
    }
    c.protocol.max_offers = scn.max_offers;
    c.protocol.max_scrape_torrents = scn.max_scrape_torrents;
    c.cleaning.max_peer_age = scn.max_peer_age;
    c.cleaning.max_offer_age = scn.max_offer_age;
    c.cleaning.torrent_cleaning_interval = scn.cleaning_interval.max(1);
    c.cleaning.connection_cleaning_interval = scn.conn_cleaning_interval.max(1);
    c.cleaning.max_connection_idle = scn.max_connection_idle;
    c.access_list.mode = match scn.access_mode {
        1 => aquatic_common::access_list::AccessListMode::Allow,
        2 => aquatic_common::access_list::AccessListMode::Deny,
        _ => aquatic_common::access_list::AccessListMode::Off,
    };
    c.access_list.path = dir.join("access-list.txt");
    c
}

fn t_of(v: &Value) -> u8 {
    v.get("info_hash").and_then(|x| x.as_str()).and_then(|s| s.chars().next()).map(|c| c as u32 as u8).unwrap_or(255)
}

type Ws = tungstenite::WebSocket<ClientStream>;

fn open_ws(addr: SocketAddr, pick: Pick) -> Result<Ws, String> {
    open_ws2(addr, pick, false)
}

/// `early`: the tracker may still be starting - retry (as a client's SYN would be) until a listener exists
fn open_ws2(addr: SocketAddr, pick: Pick, early: bool) -> Result<Ws, String> {
    let mut conn = tcp::connect(addr, pick);
    let mut tries = 0;
    while conn.is_none() && early && engine::now() == 0 && tries < 400 {
        engine::yield_now();
        tries += 1;
        conn = tcp::connect(addr, pick);
    }
    let mut s = conn.ok_or("no listener for this address family")?;
    s.read_timeout_ns = 5_000_000_000;
    let req = "ws://tracker.example:3000/";
    match tungstenite::client(req, s) {
        Ok((ws, _resp)) => Ok(ws),
        Err(e) => Err(format!("{}", e)),
    }
}

/// Read incoming messages until `deadline` (simulated); returns false if the connection ended.
fn pump(ws: &mut Ws, log: &mut Vec<Ev>, deadline_ns: u64, stop_after_reply: bool) -> bool {
    pump2(ws, log, deadline_ns, if stop_after_reply { 1 } else { 0 })
}

/// `stop`: 0 never, 1 after any reply-kind message, 2 after an announce reply or an error that ends the request
fn pump2(ws: &mut Ws, log: &mut Vec<Ev>, deadline_ns: u64, stop: u8) -> bool {
    let stop_after_reply = stop == 1;
    loop {
        let left = deadline_ns.saturating_sub(engine::now());
        if left == 0 {
            return true;
        }
        {
            let s = ws.get_mut();
            s.read_timeout_ns = left;
            s.timeout_is_would_block = true;
        }
        let got = ws.read();
        if !matches!(&got, Err(tungstenite::Error::Io(e)) if e.kind() == std::io::ErrorKind::WouldBlock) {
            log.push(Ev::At { ns: engine::now() });
        }
        match got {
            Ok(Message::Text(t)) => {
                let seq = engine::seq();
                let v: Value = match serde_json::from_str(t.as_str()) {
                    Ok(v) => v,
                    Err(e) => {
                        log.push(Ev::GotOther { what: format!("unparseable JSON from the tracker: {}", e) });
                        continue;
                    }
                };
                let is_reply;
                if v.get("offer").is_some() {
                    is_reply = false;
                    log.push(Ev::GotOffer { t: t_of(&v), from_pid: v["peer_id"].as_str().unwrap_or("").into(), oid: v["offer_id"].as_str().unwrap_or("").into(), sdp: v["offer"]["sdp"].as_str().unwrap_or("").into(), seq });
                } else if v.get("answer").is_some() {
                    is_reply = false;
                    log.push(Ev::GotAnswer { t: t_of(&v), from_pid: v["peer_id"].as_str().unwrap_or("").into(), oid: v["offer_id"].as_str().unwrap_or("").into(), sdp: v["answer"]["sdp"].as_str().unwrap_or("").into(), seq });
                } else if v.get("failure reason").is_some() {
                    is_reply = true;
                    log.push(Ev::GotError { reason: v["failure reason"].as_str().unwrap_or("").into(), seq });
                } else if v.get("files").is_some() {
                    is_reply = true;
                    let mut files = BTreeMap::new();
                    if let Some(o) = v["files"].as_object() {
                        for (k, st) in o {
                            let t = k.chars().next().map(|c| c as u32 as u8).unwrap_or(255);
                            files.insert(t, (st["complete"].as_i64().unwrap_or(-1), st["incomplete"].as_i64().unwrap_or(-1)));
                        }
                    }
                    log.push(Ev::GotScrapeReply { files, seq });
                } else if v.get("complete").is_some() {
                    is_reply = true;
                    log.push(Ev::GotAnnounceReply { t: t_of(&v), complete: v["complete"].as_i64().unwrap_or(-1), incomplete: v["incomplete"].as_i64().unwrap_or(-1), seq });
                } else {
                    is_reply = false;
                    log.push(Ev::GotOther { what: format!("unclassifiable message {}", t.as_str().chars().take(80).collect::<String>()) });
                }
                if is_reply && stop_after_reply {
                    return true;
                }
                if stop == 2 {
                    match log.last() {
                        Some(Ev::GotAnnounceReply { .. }) => return true,
                        Some(Ev::GotError { reason, .. }) if reason.contains("not allowed") || reason.contains("Only one peer id") => return true,
                        _ => {}
                    }
                }
            }
            Ok(Message::Close(_)) => {
                log.push(Ev::Closed { by_client: false, seq: engine::seq() });
                return false;
            }
            Ok(_) => {}
            Err(tungstenite::Error::Io(e)) if e.kind() == std::io::ErrorKind::WouldBlock => return true,
            Err(_) => {
                log.push(Ev::Closed { by_client: false, seq: engine::seq() });
                return false;
            }
        }
    }
}

fn client_main(idx: usize, scn: Arc<Scn>, col: Arc<Mutex<Collected>>) {
    let c = scn.conns[idx].clone();
    if c.start_ms > 0 {
        thread::sleep(Duration::from_millis(c.start_ms as u64));
    }
    let addr = SocketAddr::new(src_ip(c.v6, if c.v6 { c.ac % 2 } else { 0 }, c.h), 4000 + idx as u16);
    let pick = if c.pick == 0 { Pick::Hash } else { Pick::Index(c.pick as usize - 1) };
    let mut log: Vec<Ev> = Vec::new();
    let mut ws = match open_ws2(addr, pick, scn.early && c.start_ms == 0) {
        Ok(w) => w,
        Err(e) => {
            log.push(Ev::HandshakeFailed { why: e });
            col.lock().unwrap().logs[idx] = log;
            return;
        }
    };
    log.push(Ev::At { ns: engine::now() });
    let me = id_string(&conn_peer_id(idx, false));
    let mut n_offers: u32 = 0;
    let mut alive = true;
    // mirror of ConnectionCleanupData::announced_info_hashes: torrent -> index of the peer id in use
    let mut cur: BTreeMap<u8, usize> = BTreeMap::new();
    let allowed_t = |t: u8| match scn.access_mode {
        1 => scn.access_list.contains(&t),
        2 => !scn.access_list.contains(&t),
        _ => true,
    };
    // returns (refused): does this announce use a second peer id for a torrent in use?
    let dyn_t = dynamic_torrents(&scn);
    let mut book = |cur: &mut BTreeMap<u8, usize>, t: u8, pidc: usize, stopped: bool| -> bool {
        // (scripts use only the connection's own peer id on torrents whose permission changes with a reload)
        if !allowed_t(t) || dyn_t.contains(&t) {
            return false;
        }
        match cur.get(&t) {
            Some(p) if *p != pidc => true,
            _ => {
                if stopped {
                    cur.remove(&t);
                } else {
                    cur.insert(t, pidc);
                }
                false
            }
        }
    };
    for op in &c.script {
        if !alive {
            break;
        }
        let reply_wait = 1_500_000_000u64;
        match op {
            WOp::Sleep { ms } => thread::sleep(Duration::from_millis(*ms as u64)),
            WOp::Poll { ms } => alive = pump(&mut ws, &mut log, engine::now() + *ms as u64 * 1_000_000, false),
            WOp::Ann { t, ev, left, offers, ansp, nowait } => {
                let mut m = json!({"action": "announce", "info_hash": id_string(&info_hash(*t)), "peer_id": me, "numwant": *offers});
                if let Some(l) = left {
                    m["left"] = json!(l);
                }
                let evs = ev.map(|e| ["started", "completed", "update", "stopped"][e as usize % 4]);
                if let Some(e) = evs {
                    m["event"] = json!(e);
                }
                let mut sdps = Vec::new();
                if *offers > 0 {
                    let mut arr = Vec::new();
                    for _ in 0..*offers {
                        n_offers += 1;
                        let sdp = format!("sdp c{} n{} \"quoted\" \\ \u{1F600}", idx, n_offers);
                        arr.push(json!({"offer": {"type": "offer", "sdp": sdp}, "offer_id": id_string(&offer_id(idx, n_offers))}));
                        sdps.push(sdp);
                    }
                    m["offers"] = Value::Array(arr);
                }
                // optionally answer a received offer in the same message
                let mut answer_ev = None;
                if let Some(k) = ansp {
                    let offers_in: Vec<(u8, String, String)> = log.iter().filter_map(|e| if let Ev::GotOffer { t, from_pid, oid, .. } = e { Some((*t, from_pid.clone(), oid.clone())) } else { None }).collect();
                    let cands: Vec<&(u8, String, String)> = offers_in.iter().filter(|o| o.0 == *t).collect();
                    if !cands.is_empty() {
                        let o = cands[*k as usize % cands.len()];
                        let sdp = format!("answer c{} to {} #{}", idx, o.1.chars().last().unwrap_or('?'), log.len());
                        m["answer"] = json!({"type": "answer", "sdp": sdp});
                        m["to_peer_id"] = json!(o.1);
                        m["offer_id"] = json!(o.2);
                        answer_ev = Some(Ev::SentAnswer { t: *t, to_pid: o.1.clone(), oid: o.2.clone(), sdp, seq: engine::seq(), genuine: true });
                    }
                }
                let stopped = evs == Some("stopped");
                let refused = book(&mut cur, *t, idx, stopped);
                log.push(Ev::At { ns: engine::now() });
                log.push(Ev::SentAnn { t: *t, stopped, seeder: *left == Some(0), offers: sdps, seq: engine::seq(), pidc: idx, refused, nowait: *nowait });
                if let Some(a) = answer_ev {
                    log.push(a);
                }
                if ws.send(Message::text(m.to_string())).is_err() {
                    log.push(Ev::At { ns: engine::now() });
                    log.push(Ev::Closed { by_client: false, seq: engine::seq() });
                    alive = false;
                } else if !*nowait {
                    alive = pump2(&mut ws, &mut log, engine::now() + reply_wait, 2);
                } else {
                    let _ = ws.flush();
                }
            }
            WOp::Hijack { t, victim, ev } => {
                let v = *victim as usize % scn.conns.len();
                let mut m = json!({"action": "announce", "info_hash": id_string(&info_hash(*t)), "peer_id": id_string(&conn_peer_id(v, false)), "left": 5, "numwant": 0});
                let evs = ev.map(|e| ["started", "completed", "update", "stopped"][e as usize % 4]);
                if let Some(e) = evs {
                    m["event"] = json!(e);
                }
                let refused = book(&mut cur, *t, v, evs == Some("stopped"));
                log.push(Ev::At { ns: engine::now() });
                log.push(Ev::SentAnn { t: *t, stopped: evs == Some("stopped"), seeder: false, offers: vec![], seq: engine::seq(), pidc: v, refused, nowait: false });
                if ws.send(Message::text(m.to_string())).is_err() {
                    // the tracker had closed the connection (a write on it fails): that is a close the client has seen
                    log.push(Ev::At { ns: engine::now() });
                    log.push(Ev::Closed { by_client: false, seq: engine::seq() });
                    alive = false;
                } else {
                    alive = pump2(&mut ws, &mut log, engine::now() + 400_000_000, 2);
                }
            }
            WOp::SecondPid { t } => {
                let m = json!({"action": "announce", "info_hash": id_string(&info_hash(*t)), "peer_id": id_string(&conn_peer_id(idx, true)), "left": 5, "event": "started", "numwant": 0});
                let refused = book(&mut cur, *t, 100 + idx, false);
                log.push(Ev::At { ns: engine::now() });
                log.push(Ev::SentAnn { t: *t, stopped: false, seeder: false, offers: vec![], seq: engine::seq(), pidc: 100 + idx, refused, nowait: false });
                if ws.send(Message::text(m.to_string())).is_err() {
                    // the tracker had closed the connection (a write on it fails): that is a close the client has seen
                    log.push(Ev::At { ns: engine::now() });
                    log.push(Ev::Closed { by_client: false, seq: engine::seq() });
                    alive = false;
                } else {
                    alive = pump2(&mut ws, &mut log, engine::now() + reply_wait, 2);
                }
            }
            WOp::BogusAnswer { t, to, oid } => {
                let to_c = *to as usize % scn.conns.len();
                let sdp = format!("bogus answer c{} #{}", idx, log.len());
                let m = json!({"action": "announce", "info_hash": id_string(&info_hash(*t)), "peer_id": me, "left": 5, "numwant": 0,
                    "answer": {"type": "answer", "sdp": sdp}, "to_peer_id": id_string(&conn_peer_id(to_c, false)), "offer_id": id_string(&offer_id(to_c, 600 + *oid as u32))});
                let refused = book(&mut cur, *t, idx, false);
                log.push(Ev::At { ns: engine::now() });
                log.push(Ev::SentAnn { t: *t, stopped: false, seeder: false, offers: vec![], seq: engine::seq(), pidc: idx, refused, nowait: false });
                log.push(Ev::SentAnswer { t: *t, to_pid: id_string(&conn_peer_id(to_c, false)), oid: id_string(&offer_id(to_c, 600 + *oid as u32)), sdp, seq: engine::seq(), genuine: false });
                if ws.send(Message::text(m.to_string())).is_err() {
                    // the tracker had closed the connection (a write on it fails): that is a close the client has seen
                    log.push(Ev::At { ns: engine::now() });
                    log.push(Ev::Closed { by_client: false, seq: engine::seq() });
                    alive = false;
                } else {
                    // an error reply for the answer may precede the announce reply: read both
                    alive = pump(&mut ws, &mut log, engine::now() + 600_000_000, false);
                }
            }
            WOp::Scr { ts } => {
                let m = match ts {
                    None => json!({"action": "scrape"}),
                    Some(v) if v.len() == 1 => json!({"action": "scrape", "info_hash": id_string(&info_hash(v[0]))}),
                    Some(v) => json!({"action": "scrape", "info_hash": v.iter().map(|t| id_string(&info_hash(*t))).collect::<Vec<_>>()}),
                };
                log.push(Ev::At { ns: engine::now() });
                log.push(Ev::SentScr { ts: ts.clone(), seq: engine::seq() });
                // scrapes may travel as binary messages too
                let msg = if idx % 2 == 0 { Message::text(m.to_string()) } else { Message::binary(m.to_string().into_bytes()) };
                if ws.send(msg).is_err() {
                    // the tracker had closed the connection (a write on it fails): that is a close the client has seen
                    log.push(Ev::At { ns: engine::now() });
                    log.push(Ev::Closed { by_client: false, seq: engine::seq() });
                    alive = false;
                } else {
                    alive = pump(&mut ws, &mut log, engine::now() + reply_wait, true);
                }
            }
            WOp::Bad { kind } => {
                let msg = match kind % 8 {
                    // identifiers longer than 20 characters
                    6 => Message::text(json!({"action": "announce", "info_hash": format!("{}x", id_string(&info_hash(0))), "peer_id": me, "numwant": 0}).to_string()),
                    7 => Message::text(json!({"action": "scrape", "info_hash": [id_string(&info_hash(0)).repeat(3)]}).to_string()),
                    0 => Message::text("{\"action\": \"announce\", \"info_hash\": ".to_string()),
                    1 => Message::binary(vec![0u8, 159, 146, 150, 255, 0, 1]),
                    2 => Message::text(json!({"action": "announce", "info_hash": "short", "peer_id": me, "numwant": 0}).to_string()),
                    3 => Message::text(format!("{}1{}", "[".repeat(3000), "]".repeat(3000))),
                    4 => Message::Ping(vec![1, 2, 3].into()),
                    _ => Message::text(json!({"action": "announce", "info_hash": "\u{1F600}aaaaaaaaaaaaaaaaaaa", "peer_id": me, "numwant": 0}).to_string()),
                };
                log.push(Ev::SentBad { seq: engine::seq() });
                if ws.send(msg).is_err() {
                    // the tracker had closed the connection (a write on it fails): that is a close the client has seen
                    log.push(Ev::At { ns: engine::now() });
                    log.push(Ev::Closed { by_client: false, seq: engine::seq() });
                    alive = false;
                } else {
                    alive = pump(&mut ws, &mut log, engine::now() + 300_000_000, true);
                }
            }
            WOp::Close => {
                log.push(Ev::Closed { by_client: true, seq: engine::seq() });
                let _ = ws.close(None);
                let _ = ws.flush();
                // read until the tracker has answered the close frame or dropped the connection
                let _ = pump(&mut ws, &mut log, engine::now() + 200_000_000, false);
                alive = false;
            }
            WOp::Reset => {
                log.push(Ev::Closed { by_client: true, seq: engine::seq() });
                ws.get_mut().reset();
                alive = false;
            }
        }
    }
    if alive {
        // keep the connection open (and its peers stored) until the end of the run
        let end = scn.duration_ms * 1_000_000;
        alive = pump(&mut ws, &mut log, end.saturating_sub(700_000_000), false);
    }
    if alive {
        // hold the socket until the observers are done, then look once more: the tracker may have closed
        // the connection (idle cleaning) after this client stopped reading
        let end = scn.duration_ms * 1_000_000 + 3_000_000_000;
        let left = end.saturating_sub(engine::now());
        thread::sleep(Duration::from_nanos(left));
        if !pump(&mut ws, &mut log, engine::now() + 1_000_000, false) {
            if let Some(Ev::Closed { by_client: false, .. }) = log.last() {
                log.pop();
                log.push(Ev::ClosedLate { ns: engine::now() });
            }
        }
    }
    col.lock().unwrap().logs[idx] = log;
}

fn sim_root(scn: Arc<Scn>, col: Arc<Mutex<Collected>>) {
    let dir = fs::scratch_dir();
    let config = build_config(&scn, &dir);
    std::fs::write(&config.access_list.path, list_file(&scn.access_list, false)).unwrap();
    let list_path = config.access_list.path.clone();
    let mut plan = fault::Plan::default();
    let mut sig_close = None;
    for f in &scn.faults {
        match f {
            PF::Panic { thread, n } => plan.panic_at.push((thread.clone(), *n)),
            PF::PanicAt { thread, ms } => plan.panic_at_time.push((thread.clone(), ms * 1_000_000)),
            PF::BindFail { thread } => plan.fail_bind.push(thread.clone()),
            PF::EndLoop { thread, n } => plan.end_loop_at.push((thread.clone(), *n)),
            PF::SignalsClose { ms } => sig_close = Some(*ms),
            PF::SpawnFail { thread } => plan.fail_spawn.push(thread.clone()),
        }
    }
    if scn.early {
        // a slow start (think of a large access-list file): the thread running run() stalls for 3 ms at one of its first seam calls
        plan.stall_at.push(("tracker-run".into(), 1 + scn.sched_seed % 10, 3_000_000));
    }
    fault::set_plan(plan);
    aquatic_verif_rt::net::tcp::set_accept_faults(scn.accept_faults.iter().copied().collect());
    col.lock().unwrap().logs = vec![Vec::new(); scn.conns.len()];
    let col2 = col.clone();
    let _run = thread::spawn_named("tracker-run", move || {
        let r = aquatic_ws::run(config);
        let t = engine::now();
        col2.lock().unwrap().run_returned = Some((t, r.map_err(|e| format!("{:#}", e))));
    });
    if !scn.early {
        thread::sleep(Duration::from_millis(5));
    }
    let mut hs = Vec::new();
    for i in 0..scn.conns.len() {
        let (s, c) = (scn.clone(), col.clone());
        hs.push(thread::spawn_named(&format!("client-{}", i), move || client_main(i, s, c)));
    }
    if sig_close.is_some() || !scn.reloads.is_empty() {
        let s = scn.clone();
        hs.push(thread::spawn_named("operator", move || {
            let mut ops: Vec<(u64, Option<(Vec<u8>, bool)>)> = s.reloads.iter().map(|(at, l, bad)| (*at as u64, Some((l.clone(), *bad)))).collect();
            if let Some(ms) = sig_close {
                ops.push((ms, None));
            }
            ops.sort_by_key(|o| o.0);
            for (at, o) in ops {
                let now_ms = engine::now() / 1_000_000;
                if at > now_ms {
                    thread::sleep(Duration::from_millis(at - now_ms));
                }
                match o {
                    Some((l, bad)) => {
                        std::fs::write(&list_path, list_file(&l, bad)).unwrap();
                        engine::log("operator-reload", l.len() as u64, bad as u64);
                        signal::raise(10);
                    }
                    None => signal::close(),
                }
            }
        }));
    }
    // quiescence, then two observers (IPv4 and IPv6 source) scrape every torrent
    let now_ms = engine::now() / 1_000_000;
    if scn.duration_ms > now_ms {
        thread::sleep(Duration::from_millis(scn.duration_ms - now_ms));
    }
    if col.lock().unwrap().run_returned.is_none() {
        for v6 in [false, true] {
            let addr = SocketAddr::new(src_ip(v6, 0, 999), 5999);
            if let Ok(mut ws) = open_ws(addr, Pick::Hash) {
                let mut log = Vec::new();
                let all: Vec<u8> = (0..8).collect();
                let mut files: BTreeMap<u8, (i64, i64)> = BTreeMap::new();
                let mut ok = true;
                for chunk in all.chunks(scn.max_scrape_torrents.clamp(1, 8)) {
                    let m = json!({"action": "scrape", "info_hash": chunk.iter().map(|t| id_string(&info_hash(*t))).collect::<Vec<_>>()});
                    if ws.send(Message::text(m.to_string())).is_err() {
                        ok = false;
                        break;
                    }
                    pump(&mut ws, &mut log, engine::now() + 1_500_000_000, true);
                }
                for e in &log {
                    if let Ev::GotScrapeReply { files: f, .. } = e {
                        files.extend(f.iter().map(|(k, v)| (*k, *v)));
                    }
                }
                if ok {
                    col.lock().unwrap().final_scrape.push((v6, files));
                }
            }
        }
    }
    for h in hs {
        let _ = h.join();
    }
    col.lock().unwrap().end_ns = engine::now();
}

pub struct WsSys;

impl Harness for WsSys {
    type Scn = Scn;
    const NAME: &'static str = "ws_sys";
    const MINIMISE_BUDGET: u64 = 300;

    fn generate(seed: u64, tier: Tier, prop: &str) -> Scn {
        let mut r = Prng::stream(seed, "scenario");
        // knobs added later draw from a stream of their own so that older seeds keep their scenarios
        let mut r2 = Prng::stream(seed, "scenario-metrics");
        let prometheus = r2.chance(if prop == "C19" { 500 } else { 350 });
        let torrent_count_update_interval = *r2.pick(&[1u64, 2, 10]);
        let accept_faults: Vec<u64> = if prop != "C19" && r2.chance(150) { (0..r2.range(1, 3)).map(|_| r2.range(1, 8)).collect() } else { Vec::new() };
        let socket_workers = r.range(1, 3) as u8;
        let swarm_workers = r.range(1, 3) as u8;
        let layout = *r.pick(&[0u8, 0, 1, 2, 2]);
        let c19 = prop == "C19";
        let c12 = prop == "C12";
        let access_mode = if prop == "C11" { r.range(1, 2) as u8 } else if r.chance(150) { r.range(1, 2) as u8 } else { 0 };
        let n_conns = r.range(2, if tier == Tier::Quick { 5 } else { 6 }) as usize;
        let n_torrents = r.range(1, 4) as u8;
        let mut conns = Vec::new();
        for i in 0..n_conns {
            let v6 = match layout % 3 {
                0 => false,
                1 => true,
                _ => r.chance(400),
            };
            let n_ops = r.range(2, if tier == Tier::Quick { 9 } else { 16 }) as usize;
            let mut script = Vec::new();
            // most connections start by announcing, so that there is a swarm to relay within
            script.push(WOp::Ann { t: r.below(n_torrents as u64) as u8, ev: Some(0), left: Some(if r.chance(300) { 0 } else { 7 }), offers: 0, ansp: None, nowait: false });
            for _ in 0..n_ops {
                let op = match r.weighted(&[8, 44, 5, 3, 4, 12, 10, if c12 { 10 } else { 2 }, 6, 5]) {
                    0 => WOp::Sleep { ms: *r.pick(&[1u32, 100, 900]) },
                    1 => WOp::Ann {
                        t: r.below(n_torrents as u64) as u8,
                        ev: *r.pick(&[None, Some(0), Some(1), Some(2), Some(2), Some(3)]),
                        left: *r.pick(&[None, Some(0), Some(9)]),
                        offers: *r.pick(&[0u8, 0, 1, 2, 3, 12]),
                        ansp: if r.chance(500) { Some(r.below(4) as u8) } else { None },
                        nowait: false,
                    },
                    2 => WOp::Hijack { t: r.below(n_torrents as u64) as u8, victim: r.below(n_conns as u64) as u8, ev: *r.pick(&[None, Some(3)]) },
                    3 => WOp::SecondPid { t: r.below(n_torrents as u64) as u8 },
                    4 => WOp::BogusAnswer { t: r.below(n_torrents as u64) as u8, to: r.below(n_conns as u64) as u8, oid: r.below(5) as u8 },
                    5 => WOp::Scr { ts: if r.chance(80) { None } else if r.chance(80) { Some(vec![]) } else { Some((0..r.range(1, 4)).map(|_| r.below(n_torrents as u64 + 1) as u8).collect()) } },
                    6 => WOp::Poll { ms: *r.pick(&[50u32, 300, 1200]) },
                    7 => WOp::Bad { kind: r.below(8) as u8 },
                    8 => WOp::Close,
                    _ => WOp::Reset,
                };
                let ends = matches!(op, WOp::Close | WOp::Reset | WOp::SecondPid { .. });
                if matches!(op, WOp::Close | WOp::Reset) && r.chance(500) {
                    // a last announce that the close may overtake
                    script.push(WOp::Ann { t: r.below(n_torrents as u64) as u8, ev: Some(0), left: Some(3), offers: 0, ansp: None, nowait: true });
                }
                script.push(op);
                if ends {
                    break;
                }
            }
            conns.push(WConn { v6, ac: r.below(2) as u8, h: 10 + i as u16, pick: if r.chance(500) { r.range(1, 3) as u8 } else { 0 }, start_ms: *r.pick(&[0u32, 0, 20, 400]), script });
        }
        // a crowd: many connections of one socket worker announce with offers at the same instant while one of them
        // (connection 0, already in the swarm, reading promptly) has a request of its own in flight
        let flood = (prop == "C17" || prop == "C09") && access_mode == 0 && (r.chance(40) || std::env::var_os("VERIF_FLOOD").is_some());
        if flood {
            conns.clear();
            let v6 = layout % 3 == 1;
            let n = r.range(19, 26) as usize;
            // everybody's second step happens at the same simulated instant (80 ms)
            let mut script0 = vec![WOp::Ann { t: 0, ev: Some(0), left: Some(7), offers: 0, ansp: None, nowait: false }, WOp::Sleep { ms: 80 }];
            for _ in 0..r.range(1, 3) {
                script0.push(if r.chance(500) { WOp::Scr { ts: Some(vec![0]) } } else { WOp::Ann { t: 0, ev: Some(2), left: Some(7), offers: 0, ansp: None, nowait: false } });
            }
            script0.push(WOp::Poll { ms: 300 });
            conns.push(WConn { v6, ac: 0, h: 10, pick: 1, start_ms: 0, script: script0 });
            for i in 1..n {
                let script = vec![WOp::Sleep { ms: 50 }, WOp::Ann { t: 0, ev: Some(0), left: Some(7), offers: 30, ansp: None, nowait: false }, WOp::Poll { ms: 200 }];
                conns.push(WConn { v6, ac: 0, h: 10 + i as u16, pick: 1, start_ms: 30, script });
            }
        }
        // expiry probe: one connection re-announces every second, one announces once; both scrape every second
        let probe: Option<(u32, u64)> = if !flood && !c19 && !c12 && access_mode == 0 && r.chance(if prop == "C10" { 300 } else { 50 }) {
            Some(*r.pick(&[(4u32, 1u64), (4, 2), (6, 2), (4, 6), (6, 6)]))
        } else {
            None
        };
        if let Some((age, interval)) = probe {
            let v6 = match layout % 3 {
                0 => false,
                1 => true,
                _ => r.chance(500),
            };
            let span = 2 * age as u64 + interval + 5;
            let mut s1 = Vec::new();
            for k in 0..span {
                if k < age as u64 + 3 {
                    s1.push(WOp::Ann { t: 7, ev: Some(2), left: Some(5), offers: 0, ansp: None, nowait: false });
                }
                s1.push(WOp::Scr { ts: Some(vec![7]) });
                s1.push(WOp::Sleep { ms: 1000 });
            }
            let mut s2 = vec![WOp::Ann { t: 7, ev: Some(0), left: Some(0), offers: 0, ansp: None, nowait: false }];
            for _ in 0..span {
                s2.push(WOp::Sleep { ms: 1000 });
                s2.push(WOp::Scr { ts: Some(vec![7]) });
            }
            for (j, script) in [s1, s2].into_iter().enumerate() {
                conns.push(WConn { v6, ac: 0, h: 100 + j as u16, pick: 0, start_ms: 0, script });
            }
        }
        let mut faults = Vec::new();
        if c19 {
            let mut threads: Vec<String> = (1..=socket_workers).map(|i| format!("socket-{:02}", i)).collect();
            threads.extend((1..=swarm_workers).map(|i| format!("swarm-{:02}", i)));
            threads.push("signals".into());
            if prometheus {
                threads.push("prometheus".into());
            }
            if r.chance(850) {
                let th = r.pick(&threads).clone();
                let f = match r.below(10) {
                    0 if th.starts_with("socket") || th == "prometheus" => PF::BindFail { thread: th },
                    1 if th == "prometheus" => PF::EndLoop { thread: th, n: *r.pick(&[1u64, 2, 3, 5]) },
                    // (a glommio accept stream never ends by itself, so there is no "loop ends" death for socket workers)
                    2 if th == "signals" => PF::SignalsClose { ms: r.range(0, 15000) },
                    3 => PF::SpawnFail { thread: th },
                    4 | 5 => PF::PanicAt { thread: th, ms: r.range(0, 15000) },
                    _ => PF::Panic { thread: th, n: *r.pick(&[1u64, 2, 3, 5, 10, 30, 100, 300, 1000]) },
                };
                faults.push(f);
            }
        }
        let access_list: Vec<u8> = (0..r.below(3)).map(|_| r.below(4) as u8).collect();
        let duration_ms = if c19 { 35_000 } else { r.range(8_000, 20_000) };
        let duration_ms = probe.map_or(duration_ms, |(a, i)| (2 * a as u64 + i + 9) * 1000);
        let reloads: Vec<(u32, Vec<u8>, bool)> = if access_mode != 0 && !c19 && r.chance(if prop == "C11" { 700 } else { 300 }) {
            (0..r.range(1, 2)).map(|_| (r.range(300, duration_ms - 2000) as u32, (0..r.below(3)).map(|_| r.below(4) as u8).collect(), r.chance(200))).collect()
        } else {
            vec![]
        };
        if !reloads.is_empty() {
            // on torrents whose permission changes with a reload connections only use their own peer id
            // (whether the tracker recorded an earlier announce is then irrelevant to what it must answer)
            let tmp = Scn { socket_workers, swarm_workers, layout, max_offers: 0, max_scrape_torrents: 1, max_peer_age: 0, max_offer_age: 0, cleaning_interval: 0, conn_cleaning_interval: 0, max_connection_idle: 0, access_mode, access_list: access_list.clone(), sched_strategy: 0, sched_seed: 0, entropy_seed: 0, yield_permille: 0, duration_ms, conns: vec![], faults: vec![], reloads: reloads.clone(), early: false, probe: None, drop_priv: false, prometheus: false, torrent_count_update_interval: 0, accept_faults: vec![] };
            let d = dynamic_torrents(&tmp);
            for c in conns.iter_mut() {
                for op in c.script.iter_mut() {
                    let t = match op {
                        WOp::Hijack { t, .. } | WOp::SecondPid { t } | WOp::BogusAnswer { t, .. } => *t,
                        _ => continue,
                    };
                    if d.contains(&t) {
                        *op = WOp::Ann { t, ev: Some(2), left: Some(5), offers: 1, ansp: None, nowait: false };
                    }
                }
            }
        }
        Scn {
            socket_workers,
            swarm_workers,
            layout,
            max_offers: if flood { 30 } else { *r.pick(&[0usize, 1, 2, 10]) },
            max_scrape_torrents: *r.pick(&[1usize, 2, 255]),
            max_peer_age: probe.map_or(600, |p| p.0),
            max_offer_age: *r.pick(&[2u32, 120]),
            cleaning_interval: probe.map_or(*r.pick(&[3u64, 30]), |p| p.1),
            conn_cleaning_interval: *r.pick(&[2u64, 30]),
            max_connection_idle: if !c19 && r.chance(200) { *r.pick(&[3u32, 6]) } else { 180 },
            access_mode,
            access_list,
            sched_strategy: r.below(4) as u8,
            sched_seed: r.next_u64(),
            entropy_seed: r.next_u64(),
            yield_permille: *r.pick(&[0u32, 200, 700]),
            duration_ms,
            conns,
            faults,
            reloads,
            early: !c19 && r.chance(if prop == "C11" { 300 } else { 100 }),
            probe,
            drop_priv: r.chance(300),
            prometheus,
            torrent_count_update_interval,
            accept_faults,
        }
    }

    fn execute(scn: &Scn, prop: &str, stats: &mut Stats) -> Outcome {
        aquatic_verif_rt::reset_all(scn.entropy_seed);
        crate::recorder::reset();
        foldhash::verif_reset_seed_counter();
        glommio::sim_reset();
        let col = Arc::new(Mutex::new(Collected::default()));
        let scn_arc = Arc::new(scn.clone());
        let cfg = EngineCfg {
            sched_seed: scn.sched_seed,
            strategy: match scn.sched_strategy % 4 {
                0 => Strategy::Random,
                1 => Strategy::Sticky(500),
                2 => Strategy::Sticky(950),
                _ => Strategy::Pct { depth: 3, horizon: 5000 },
            },
            max_handoffs: 3_000_000,
            trace: std::env::var_os("VERIF_TRACE").is_some(),
            yield_permille: scn.yield_permille,
            record_clock: false,
            wall_limit_s: 120,
            record_events: false,
        };
        let (c2, s2) = (col.clone(), scn_arc.clone());
        let report = engine::run(cfg, move || sim_root(s2, c2));
        let fired_at = fault::fired_at();
        for (k, v) in fault::fired() {
            stats.fault(k, v);
        }
        for (k, v) in aquatic_verif_rt::net::tcp::fired() {
            stats.fault(k, v);
        }
        stats.handoffs += report.handoffs;
        let dropped = glommio::sim_local_full_count();
        if dropped > 0 {
            stats.probe_n("out-message-dropped-connection-channel-full", dropped);
        }
        stats.sim_seconds += report.now_ns / 1_000_000_000;
        let col = std::mem::take(&mut *col.lock().unwrap());
        let mut violations: Vec<Violation> = Vec::new();
        if report.overrun {
            stats.probe("engine-step-budget-exhausted");
            return Outcome { violations, fingerprint: report.log_hash, signature: None };
        }
        if let Some(d) = &report.deadlock {
            violations.push(Violation::new(prop, "engine-deadlock", "engine-deadlock", format!("all simulated threads blocked without a timer: {:?}", d)));
            return Outcome { violations, fingerprint: report.log_hash, signature: None };
        }
    for (name, len, used) in aquatic_verif_rt::alloc::take_excess() {
        if !(name.starts_with("client") || name == "operator" || name == "root" || name == "net") {
            violations.push(Violation::new("C12", "allocation-bounded-by-input", "allocation-bound", format!("tracker thread {} allocated {} bytes while handling a {}-byte network input (> 64 x input + 1 MiB)", name, used, len)));
        }
    }
    let (ml, mu) = aquatic_verif_rt::alloc::take_max();
    if mu > 0 {
        stats.probe_n("largest-allocation-per-input-kib", mu / 1024);
        let _ = ml;
    }
        let injected: BTreeSet<String> = fired_at.iter().filter(|f| f.1 == "panic").map(|f| f.0.clone()).collect();
        let mut unplanned = false;
        for (name, msg) in &report.panics {
            if msg.contains("injected worker death") || injected.contains(name) {
                continue;
            }
            if name.starts_with("client") || name == "operator" || name == "root" {
                violations.push(Violation::new(prop, "harness-thread-panic", "harness-thread-panic", format!("harness thread {} panicked: {}", name, msg)));
                continue;
            }
            unplanned = true;
            violations.push(Violation::new("C12", "no-panic-on-network-input", if msg.contains("overflow") { "arithmetic-overflow" } else { "tracker-thread-panic" }, format!("tracker thread {} panicked: {}", name, msg)));
            // whatever property this run samples, a tracker that dies of its own accord no longer serves anybody
            if prop != "C12" && scn.faults.is_empty() {
                violations.push(Violation::new(prop, "tracker-stays-up", "tracker-thread-panic", format!("tracker thread {} panicked without an injected fault: {}", name, msg)));
            }
        }
        // ---- C19
        {
            let mut death: Option<(u64, String)> = None;
            for (th, kind, t) in &fired_at {
                if (*kind == "panic" || *kind == "bind-fail" || *kind == "end-loop") && death.as_ref().map_or(true, |d| *t < d.0) {
                    death = Some((*t, format!("{} ({})", th, kind)));
                }
            }
            for f in &scn.faults {
                match f {
                    PF::SignalsClose { ms } if ms * 1_000_000 <= col.end_ns => {
                        if death.as_ref().map_or(true, |d| ms * 1_000_000 < d.0) {
                            death = Some((ms * 1_000_000, "signals (iterator closed)".into()));
                        }
                    }
                    PF::SpawnFail { thread } if thread != "prometheus" || scn.prometheus => death = Some((0, format!("{} (spawn failed)", thread))),
                    _ => {}
                }
            }
            if unplanned && death.is_none() {
                death = Some((col.end_ns, "unplanned panic".into()));
            }
            match (&death, &col.run_returned) {
                (None, Some((t, r))) => violations.push(Violation::new("C19", "run-keeps-running-without-death", "run-returned-spontaneously", format!("no worker died, but run() returned at {} ms with {:?}", t / 1_000_000, r))),
                (Some((d, who)), None) => {
                    if col.end_ns >= d + 10_500_000_000 {
                        violations.push(Violation::new("C19", "dead-worker-ends-run", "run-did-not-return", format!("{} died at {} ms but run() had not returned by {} ms", who, d / 1_000_000, col.end_ns / 1_000_000)));
                    } else {
                        stats.probe("death-too-late-to-judge");
                    }
                }
                (Some((d, who)), Some((t, r))) => {
                    stats.probe("worker-death-observed");
                if who.starts_with("prometheus") {
                    stats.probe("metrics-worker-death-observed");
                }
                    if r.is_ok() {
                        violations.push(Violation::new("C19", "dead-worker-ends-run", "run-returned-ok", format!("{} died at {} ms and run() returned Ok(())", who, d / 1_000_000)));
                    } else if *t > d + 10_000_000_000 {
                        violations.push(Violation::new("C19", "dead-worker-ends-run", "run-returned-late", format!("{} died at {} ms but run() returned only at {} ms", who, d / 1_000_000, t / 1_000_000)));
                    }
                }
                (None, None) => {}
            }
            if death.is_some() {
                return Outcome { violations, fingerprint: report.log_hash, signature: Some(report.sig_hash) };
            }
        }
        // ---- per-connection protocol checks
        let mut fp = report.log_hash;
        let fold = |h: &mut u64, x: u64| *h = (*h ^ x).wrapping_mul(0x100000001b3).rotate_left(9);
        let dyn_t = dynamic_torrents(scn);
        // permitted under some list in force during the run (static torrents: under the only one)
        let allowed = |t: u8| permits(scn.access_mode, &scn.access_list, t) || scn.reloads.iter().any(|(_, l, bad)| !*bad && permits(scn.access_mode, l, t));
        // permission at simulated time `ns`; None = within a reload's window (the signal is handled some time after it is raised)
        let mut sched: Vec<(u64, Option<&Vec<u8>>)> = scn.reloads.iter().map(|(at, l, bad)| (*at as u64 * 1_000_000, if *bad { None } else { Some(l) })).collect();
        sched.sort_by_key(|x| x.0);
        let perm_at = |t: u8, ns: u64| -> Option<bool> {
            if !dyn_t.contains(&t) {
                return Some(permits(scn.access_mode, &scn.access_list, t));
            }
            let mut list: &Vec<u8> = &scn.access_list;
            for (at, l) in &sched {
                if ns + 50_000_000 >= *at && ns <= *at + 300_000_000 {
                    return None;
                }
                if *at < ns {
                    if let Some(l) = l {
                        list = l;
                    }
                }
            }
            Some(permits(scn.access_mode, list, t))
        };
        let pid_of = |c: usize| id_string(&conn_peer_id(c, false));
        // sent offers: sdp -> (sender conn, torrent); sent answers: sdp -> (sender conn, ...)
        let mut sent_offers: BTreeMap<String, (usize, u8)> = BTreeMap::new();
        let mut sent_answers: BTreeMap<String, (usize, u8, String, String, bool)> = BTreeMap::new();
        for (c, log) in col.logs.iter().enumerate() {
            for e in log {
                match e {
                    Ev::SentAnn { t, offers, .. } => {
                        for s in offers {
                            sent_offers.insert(s.clone(), (c, *t));
                        }
                    }
                    Ev::SentAnswer { t, to_pid, oid, sdp, genuine, .. } => {
                        sent_answers.insert(sdp.clone(), (c, *t, to_pid.clone(), oid.clone(), *genuine));
                    }
                    _ => {}
                }
            }
        }
        // peer ids used on a torrent by more than one connection: which of them owns the entry depends
        // on arrival order, so replies to and membership of those announces are not judged
        let mut users: BTreeMap<(usize, u8), BTreeSet<usize>> = BTreeMap::new();
        for (c, log) in col.logs.iter().enumerate() {
            for e in log {
                if let Ev::SentAnn { t, pidc, refused: false, .. } = e {
                    users.entry((*pidc, *t)).or_default().insert(c);
                }
            }
        }
        let contested = |pidc: usize, t: u8| users.get(&(pidc, t)).map_or(false, |u| u.len() > 1);
        let mut offer_deliveries: BTreeMap<String, Vec<usize>> = BTreeMap::new();
        let mut answer_deliveries: BTreeMap<String, Vec<usize>> = BTreeMap::new();
        let mut n_replies = 0u64;
        let mut relayed = 0u64;
        for (c, log) in col.logs.iter().enumerate() {
            stats.evaluations += log.len() as u64;
            // which torrents this connection ever announced (non-stopped) before each point
            let mut announced: BTreeSet<u8> = BTreeSet::new();
            let mut pending: Option<&Ev> = None; // last request awaiting its reply
            // time of the current event; of the last request sent; of the last request that got its announce / scrape
            // reply (or the open): the tracker refreshed the idle deadline no earlier than that
            let (mut at_ns, mut sent_ns, mut active_ns) = (0u64, 0u64, 0u64);
            let mut first_at = true;
            for (i, e) in log.iter().enumerate() {
                match e {
                    Ev::At { ns } => {
                        at_ns = *ns;
                        if first_at {
                            active_ns = *ns;
                            first_at = false;
                        }
                    }
                    Ev::SentAnn { .. } | Ev::SentScr { .. } => sent_ns = at_ns,
                    Ev::GotAnnounceReply { .. } | Ev::GotScrapeReply { .. } => active_ns = sent_ns.max(active_ns),
                    _ => {}
                }
                match e {
                    Ev::HandshakeFailed { why } => {
                        // no listener for the family is fine; anything else is not
                        if !why.contains("no listener") {
                            violations.push(Violation::new("C17", "websocket-handshake", "handshake-failed", format!("connection #{}: handshake failed: {}", c, why)));
                        }
                    }
                    Ev::GotOther { what } => violations.push(Violation::new("C17", "reply-kind", "unclassifiable-message", format!("connection #{}: {}", c, what))),
                    Ev::SentAnn { t, stopped, refused, .. } => {
                        // possible membership: any accepted, un-stopped announce (whatever peer id)
                        if !*refused && !*stopped && allowed(*t) {
                            announced.insert(*t);
                        }
                        pending = Some(e);
                    }
                    Ev::SentScr { .. } | Ev::SentBad { .. } => pending = Some(e),
                    Ev::GotAnnounceReply { t, .. } => {
                        n_replies += 1;
                        fold(&mut fp, *t as u64 + 1);
                        match pending {
                            Some(Ev::SentAnn { t: st, refused, .. }) if st == t => {
                                if *refused {
                                    violations.push(Violation::new("C17", "second-peer-id-refused", "second-peer-id-accepted", format!("connection #{} announced a second peer id for torrent {} it had not stopped and got a normal announce reply", c, t)));
                                }
                                match perm_at(*t, sent_ns) {
                                    Some(false) => violations.push(Violation::new("C11", "forbidden-announce-gets-error", "forbidden-announce-accepted", format!("connection #{}: announce for torrent {} sent at {} ms, which the access list in force forbids, was accepted", c, t, sent_ns / 1_000_000))),
                                    Some(true) if dyn_t.contains(t) => stats.probe("announce-judged-against-reloaded-list"),
                                    _ => {}
                                }
                                pending = None;
                            }
                            _ => violations.push(Violation::new("C17", "one-reply-per-request", "unsolicited-announce-reply", format!("connection #{} received an announce reply for torrent {} it has no outstanding announce for (event #{})", c, t, i))),
                        }
                    }
                    Ev::GotScrapeReply { files, .. } => {
                        n_replies += 1;
                        match pending {
                            Some(Ev::SentScr { ts: Some(ts), .. }) => {
                                // entries beyond max_scrape_torrents are unconstrained (never an alarm on truncation)
                                let first: BTreeSet<u8> = ts.iter().copied().collect();
                                for (t, (cpl, inc)) in files {
                                    if !first.contains(t) && (*cpl != 0 || *inc != 0) {
                                        violations.push(Violation::new("C17", "scrape-reply-merged", "scrape-lists-unrequested", format!("connection #{}: scrape of {:?} lists torrent {} with counts {}/{}", c, ts, t, cpl, inc)));
                                    }
                                }
                                pending = None;
                            }
                            _ => violations.push(Violation::new("C17", "one-reply-per-request", "unsolicited-scrape-reply", format!("connection #{} received a scrape reply without an outstanding scrape", c))),
                        }
                    }
                    Ev::GotError { reason, .. } => {
                        n_replies += 1;
                        if let Some(Ev::SentAnn { t, refused: false, .. }) = pending {
                            if reason.contains("not allowed") {
                                match perm_at(*t, sent_ns) {
                                    Some(true) => violations.push(Violation::new("C11", "permitted-announce-accepted", "permitted-announce-rejected", format!("connection #{}: announce for torrent {} sent at {} ms, which the access list in force permits, got {:?}", c, t, sent_ns / 1_000_000, reason))),
                                    Some(false) if dyn_t.contains(t) => stats.probe("announce-refused-under-reloaded-list"),
                                    _ => {}
                                }
                                pending = None;
                            }
                        }
                        if matches!(pending, Some(Ev::SentScr { ts: None, .. }) | Some(Ev::SentBad { .. })) {
                            pending = None;
                        }
                    }
                    Ev::GotOffer { t, from_pid, sdp, .. } => {
                        relayed += 1;
                        offer_deliveries.entry(sdp.clone()).or_default().push(c);
                        match sent_offers.get(sdp) {
                            None => violations.push(Violation::new("C17", "offer-routing", "offer-from-nowhere", format!("connection #{} received an offer nobody sent (sdp {:?})", c, sdp))),
                            Some((from, st)) => {
                                if *from == c {
                                    violations.push(Violation::new("C17", "offer-routing", "offer-to-sender", format!("connection #{} received its own offer", c)));
                                } else if *st != *t || *from_pid != pid_of(*from) {
                                    violations.push(Violation::new("C17", "offer-routing", "offer-mislabelled", format!("connection #{} received an offer tagged torrent {} / peer {:?} that was sent for torrent {} by connection #{}", c, t, from_pid, st, from)));
                                } else if !announced.contains(t) {
                                    violations.push(Violation::new("C17", "offer-routing", "offer-to-non-member", format!("connection #{} received an offer for torrent {} in which it has no (un-stopped, permitted) peer", c, t)));
                                } else if scn.conns[*from].v6 != scn.conns[c].v6 && canon_ip(src_ip(scn.conns[*from].v6, scn.conns[*from].ac % 2, 1)).is_ipv4() != canon_ip(src_ip(scn.conns[c].v6, scn.conns[c].ac % 2, 1)).is_ipv4() {
                                    for p in ["C17", "C03"] {
                                        violations.push(Violation::new(p, "offer-routing", "offer-across-families", format!("offer from connection #{} delivered to connection #{} of the other address family", from, c)));
                                    }
                                }
                            }
                        }
                    }
                    Ev::GotAnswer { t, from_pid, oid, sdp, .. } => {
                        relayed += 1;
                        answer_deliveries.entry(sdp.clone()).or_default().push(c);
                        match sent_answers.get(sdp) {
                            None => violations.push(Violation::new("C17", "answer-routing", "answer-from-nowhere", format!("connection #{} received an answer nobody sent", c))),
                            Some((from, st, to_pid, soid, genuine)) => {
                                if !*genuine {
                                    violations.push(Violation::new("C09", "answer-only-along-live-offer", "bogus-answer-forwarded", format!("an answer to an offer that was never made (from connection #{}) was forwarded to connection #{}", from, c)));
                                } else if *to_pid != pid_of(c) {
                                    violations.push(Violation::new("C17", "answer-routing", "answer-to-wrong-connection", format!("answer from connection #{} addressed to peer {:?} was delivered to connection #{}", from, to_pid, c)));
                                } else if st != t || soid != oid || *from_pid != pid_of(*from) {
                                    violations.push(Violation::new("C17", "answer-routing", "answer-mislabelled", format!("answer delivered to connection #{} carries wrong torrent / offer id / peer id", c)));
                                }
                            }
                        }
                    }
                    Ev::ClosedLate { ns } => {
                        if ns.saturating_sub(active_ns) + 1_500_000_000 >= scn.max_connection_idle as u64 * 1_000_000_000 {
                            stats.probe("idle-connection-closed-by-tracker");
                        } else {
                            violations.push(Violation::new("C17", "connection-stays-open", "tracker-closed-connection", format!("connection #{} was closed by the tracker without cause while it was waiting", c)));
                        }
                    }
                    Ev::Closed { by_client: false, .. } => {
                        // the tracker ended the connection: legitimate after a second peer id, a malformed
                        // message is NOT a reason (it gets an error reply), idle cleaning not configured here
                        let second = matches!(pending, Some(Ev::SentAnn { refused: true, .. }));
                        // idle cleaning: no announce or scrape reply went out for max_connection_idle (whole seconds, so 1.5 s of slack)
                        let idle = at_ns.saturating_sub(active_ns) + 1_500_000_000 >= scn.max_connection_idle as u64 * 1_000_000_000;
                        if idle && !second {
                            stats.probe("idle-connection-closed-by-tracker");
                        }
                        if !second && !idle && !matches!(pending, Some(Ev::SentBad { .. })) && i + 1 == log.len() {
                            let by_us = log.iter().any(|e| matches!(e, Ev::Closed { by_client: true, .. }));
                            if !by_us {
                                violations.push(Violation::new("C17", "connection-stays-open", "tracker-closed-connection", format!("connection #{} was closed by the tracker without cause (pending {:?})", c, pending)));
                            }
                        }
                        if second {
                            stats.probe("second-peer-id-connection-ended");
                        }
                    }
                    _ => {}
                }
                // a new request while the previous one is unanswered = the reply never came
                if let Ev::SentAnn { .. } | Ev::SentScr { .. } = e {
                    // look back: was there an earlier pending request (other than this one)?
                }
            }
            // unanswered requests: walk again with explicit pairing
            let mut outstanding: Option<(usize, &Ev)> = None;
            for (i, e) in log.iter().enumerate() {
                match e {
                    Ev::SentAnn { .. } | Ev::SentScr { .. } | Ev::SentBad { .. } => {
                        if let Some((j, prev)) = outstanding {
                            let judged = match prev {
                                Ev::SentAnn { pidc, t, .. } if contested(*pidc, *t) => false, // may be ignored under the ownership rule
                                Ev::SentAnn { refused: true, .. } => false,                   // refused: error or close
                                Ev::SentBad { .. } => false,
                                Ev::SentScr { ts: None, .. } => false,
                                _ => true,
                            };
                            if judged {
                                // the connection's 16-slot channel overflowed in this run and at least a channel-full of
                                // messages reached this connection after the request: the reply was among those dropped
                                let got_since = log[j..i].iter().filter(|e| matches!(e, Ev::GotOffer { .. } | Ev::GotAnswer { .. })).count();
                                let sig = if dropped > 0 && got_since >= 16 { "reply-lost-connection-channel-overflow" } else { "request-unanswered" };
                                violations.push(Violation::new("C17", "one-reply-per-request", sig, format!("connection #{}: request {:?} (event #{}) got no reply before the next request ({} offers / answers reached it meanwhile; {} out-messages were dropped on full connection channels in this run)", c, prev, j, got_since, dropped)));
                            }
                        }
                        outstanding = Some((i, e));
                    }
                    Ev::GotAnnounceReply { .. } | Ev::GotScrapeReply { .. } | Ev::GotError { .. } => outstanding = None,
                    Ev::Closed { .. } => outstanding = None,
                    _ => {}
                }
            }
        }
        for (sdp, cs) in &offer_deliveries {
            if cs.len() > 1 {
                violations.push(Violation::new("C17", "offer-routing", "offer-delivered-twice", format!("offer {:?} was delivered to connections {:?}", sdp, cs)));
            }
        }
        for (sdp, cs) in &answer_deliveries {
            if cs.len() > 1 {
                violations.push(Violation::new("C17", "answer-routing", "answer-delivered-twice", format!("answer {:?} was delivered to connections {:?}", sdp, cs)));
            }
        }
        if relayed > 0 {
            stats.probe_n("offers-and-answers-relayed", relayed);
        }
        if answer_deliveries.values().any(|v| !v.is_empty()) {
            stats.probe("answer-relayed");
        }
        // ---- expiry probe (C10): scrape counts of torrent 7 against deadline windows
        if let (true, Some((age, interval))) = (violations.is_empty(), scn.probe) {
            let (age_ns, int_ns) = (age as u64 * 1_000_000_000, interval * 1_000_000_000);
            // per probe connection: (sent ns, done ns, invoke seq, return seq) of every answered announce of torrent 7
            let mut anns: Vec<Vec<(u64, u64, u64, u64)>> = Vec::new();
            let mut scrs: Vec<(u64, u64, u64, u64, i64)> = Vec::new();
            for log in &col.logs {
                let mut mine = Vec::new();
                let mut at = 0u64;
                let mut pend: Option<(bool, u64, u64)> = None; // (is announce, sent ns, seq)
                for e in log {
                    match e {
                        Ev::At { ns } => at = *ns,
                        Ev::SentAnn { t: 7, stopped: false, seq, .. } => pend = Some((true, at, *seq)),
                        Ev::SentScr { ts: Some(ts), seq } if ts.as_slice() == [7] => pend = Some((false, at, *seq)),
                        Ev::SentAnn { .. } | Ev::SentScr { .. } | Ev::SentBad { .. } => pend = None,
                        Ev::GotAnnounceReply { t: 7, seq, .. } => {
                            if let Some((true, s, i)) = pend.take() {
                                mine.push((s, at, i, *seq));
                            }
                        }
                        Ev::GotScrapeReply { files, seq } => {
                            if let Some((false, s, i)) = pend.take() {
                                let n = files.get(&7).map_or(0, |x| x.0.max(0) + x.1.max(0));
                                scrs.push((s, at, i, *seq, n));
                            }
                        }
                        _ => {}
                    }
                }
                if !mine.is_empty() {
                    anns.push(mine);
                }
            }
            for (s_sent, s_done, s_inv, s_ret, got) in scrs {
                let (mut lower, mut upper) = (0i64, 0i64);
                for v in &anns {
                    let alive = v.iter().filter(|a| a.3 < s_inv).last().map_or(false, |a| s_done + 2_000_000_000 < a.0 + age_ns);
                    let seen = v.iter().any(|a| a.2 < s_ret);
                    let gone = v.iter().filter(|a| a.2 < s_ret).all(|a| s_sent > a.1 + age_ns + int_ns + 1_500_000_000);
                    if alive {
                        lower += 1;
                    }
                    if seen && !gone {
                        upper += 1;
                    }
                }
                stats.evaluations += 1;
                if got < lower {
                    violations.push(Violation::new("C10", "peer-kept-until-deadline", "peer-gone-before-deadline", format!("scrape of the probe torrent sent at {} ms counts {} peers, but {} announced less than max_peer_age - 2 s = {} s before it (max_peer_age {} s, cleaning every {} s, {} socket x {} swarm workers)", s_sent / 1_000_000, got, lower, age - 2, age, interval, scn.socket_workers, scn.swarm_workers)));
                    break;
                } else if got > upper {
                    violations.push(Violation::new("C10", "peer-gone-after-deadline", "peer-survives-deadline-and-pass", format!("scrape of the probe torrent sent at {} ms counts {} peers, but only {} announced within the last max_peer_age + cleaning interval + 1.5 s (max_peer_age {} s, cleaning every {} s, {} socket x {} swarm workers)", s_sent / 1_000_000, got, upper, age, interval, scn.socket_workers, scn.swarm_workers)));
                    break;
                } else {
                    stats.probe(if upper == 0 { "expiry-probe-all-gone-confirmed" } else if lower > 0 { "expiry-probe-alive-confirmed" } else { "expiry-probe-inside-window" });
                }
            }
        }
        // ---- closed connections leave no peers; open ones keep theirs (final quiescent scrape)
        if violations.is_empty() && !col.final_scrape.is_empty() && scn.probe.is_none() {
            // expected entries: for each connection still open at the end, its last non-stopped permitted announce per torrent
            let mut expect: BTreeMap<(bool, u8), (i64, i64)> = BTreeMap::new();
            let mut uncertain: BTreeSet<(bool, u8)> = BTreeSet::new();
            // (family, torrent) whose last announce on an ended connection was still in flight when it closed
            let mut raced: BTreeSet<(bool, u8)> = BTreeSet::new();
            for (c, log) in col.logs.iter().enumerate() {
                let ended = log.iter().any(|e| matches!(e, Ev::Closed { .. } | Ev::HandshakeFailed { .. }));
                let v4 = canon_ip(src_ip(scn.conns[c].v6, if scn.conns[c].v6 { scn.conns[c].ac % 2 } else { 0 }, scn.conns[c].h)).is_ipv4();
                let mut last: BTreeMap<u8, (bool, bool)> = BTreeMap::new(); // t -> (stored, seeder)
                let mut unanswered: Option<u8> = None; // un-stopped announce still awaiting its reply
                // closed around the time the observers looked: its entries may or may not have been there
                let closed_late = log.iter().any(|e| matches!(e, Ev::ClosedLate { .. }));
                for e in log {
                    if let Ev::SentAnn { t, .. } = e {
                        if closed_late || dyn_t.contains(t) {
                            uncertain.insert((!v4, *t));
                        }
                    }
                    match e {
                        Ev::SentAnn { t, stopped, refused: false, .. } if allowed(*t) => unanswered = if *stopped { None } else { Some(*t) },
                        Ev::SentAnn { .. } | Ev::SentScr { .. } | Ev::SentBad { .. } | Ev::GotAnnounceReply { .. } | Ev::GotScrapeReply { .. } | Ev::GotError { .. } => unanswered = None,
                        Ev::Closed { .. } => {
                            // the close overtook an announce that was still in flight (whoever closed)
                            if let Some(t) = unanswered.take() {
                                raced.insert((!v4, t));
                            }
                        }
                        _ => {}
                    }
                    if let Ev::SentAnn { t, stopped, seeder, pidc, refused: false, .. } = e {
                        if !allowed(*t) {
                            continue;
                        }
                        if contested(*pidc, *t) {
                            uncertain.insert((!v4, *t));
                        }
                        last.insert(*t, (!*stopped, *seeder));
                        if let Ev::SentAnn { nowait: true, .. } = e {
                            if ended && !*stopped {
                                raced.insert((!v4, *t));
                            }
                        }
                    }
                }
                if ended {
                    stats.probe("connection-ended-before-quiescence");
                    continue;
                }
                for (t, (stored, seeder)) in last {
                    if stored {
                        let e = expect.entry((!v4, t)).or_insert((0, 0));
                        if seeder {
                            e.0 += 1;
                        } else {
                            e.1 += 1;
                        }
                    }
                }
            }
            if std::env::var_os("VERIF_DEBUG").is_some() {
                eprintln!("logs {:?}\nexpect {:?} uncertain {:?} raced {:?} final {:?}", col.logs, expect, uncertain, raced, col.final_scrape);
            }
            for (obs_v6, files) in &col.final_scrape {
                // the observer's family: IPv6 observer sees the IPv6 swarm; an IPv4 (or mapped) one the IPv4 swarm
                for t in 0..8u8 {
                    let key = (*obs_v6, t);
                    if uncertain.contains(&key) {
                        continue;
                    }
                    let want = expect.get(&key).copied().unwrap_or((0, 0));
                    let got = files.get(&t).copied().unwrap_or((0, 0));
                    stats.probe("final-scrape-entry-judged");
                    if got != want {
                        let sig = if got.0 + got.1 > want.0 + want.1 {
                            if raced.contains(&key) && got.0 + got.1 == want.0 + want.1 + 1 {
                                "entry-survives-close-racing-last-announce"
                            } else {
                                "entry-survives-its-connection"
                            }
                        } else {
                            "entry-of-open-connection-missing"
                        };
                        // the surplus is exactly what the other address family holds: both families share one swarm
                        let other = expect.get(&(!*obs_v6, t)).copied().unwrap_or((0, 0));
                        // (seen from both sides, so that one entry that outlived its connection is not mistaken for it)
                        let both = col.final_scrape.iter().filter(|(_, f)| f.get(&t).copied().unwrap_or((0, 0)) == (want.0 + other.0, want.1 + other.1)).count() == 2;
                        let merged = both && other != (0, 0) && want != (0, 0) && !uncertain.contains(&(!*obs_v6, t)) && !raced.contains(&key) && !raced.contains(&(!*obs_v6, t));
                        let sig = if merged { "address-families-share-a-swarm" } else { sig };
                        // (C08: closing a connection removes exactly the entries that connection created)
                        let props: &[&str] = if merged { &["C17", "C03"] } else { &["C17", "C08"] };
                        for p in props {
                            violations.push(Violation::new(p, "closed-connections-leave-no-peers", sig, format!("at quiescence torrent {} ({}) scrapes complete/incomplete {}/{} but the connections still open hold {}/{} ({} socket x {} swarm workers)", t, if *obs_v6 { "IPv6" } else { "IPv4" }, got.0, got.1, want.0, want.1, scn.socket_workers, scn.swarm_workers)));
                        }
                    }
                }
            }
        }
        let nontrivial = n_replies >= 3;
        // relaying rules are C09's as much as C17's (to the addressed peer's own connection, never to the sender, same family)
        let also: Vec<Violation> = violations
            .iter()
            .filter(|v| v.prop == "C17" && (v.check == "offer-routing" || v.check == "answer-routing"))
            .map(|v| Violation::new("C09", &v.check, &v.signature, v.detail.clone()))
            .collect();
        violations.extend(also);
        Outcome { violations, fingerprint: fp, signature: if nontrivial { Some(report.sig_hash) } else { None } }
    }

    fn size(scn: &Scn) -> usize {
        scn.conns.iter().map(|c| 1 + c.script.len()).sum::<usize>() + scn.faults.len() + scn.reloads.len()
    }

    fn shrink(scn: &Scn) -> Vec<Scn> {
        let mut out = Vec::new();
        // connection indices are referenced by Hijack / BogusAnswer modulo the count: dropping the last is safe-ish
        if scn.conns.len() > 1 {
            for i in (0..scn.conns.len()).rev() {
                let mut s = scn.clone();
                s.conns.remove(i);
                out.push(s);
            }
        }
        for i in 0..scn.reloads.len() {
            let mut s = scn.clone();
            s.reloads.remove(i);
            out.push(s);
        }
        for i in 0..scn.faults.len() {
            let mut s = scn.clone();
            s.faults.remove(i);
            out.push(s);
        }
        for (ci, c) in scn.conns.iter().enumerate() {
            for (a, b) in chunk_removals(c.script.len()) {
                let mut s = scn.clone();
                s.conns[ci].script.drain(a..b);
                out.push(s);
            }
        }
        if scn.socket_workers > 1 {
            let mut s = scn.clone();
            s.socket_workers -= 1;
            out.push(s);
        }
        if scn.swarm_workers > 1 {
            let mut s = scn.clone();
            s.swarm_workers -= 1;
            out.push(s);
        }
        if scn.yield_permille != 0 {
            let mut s = scn.clone();
            s.yield_permille = 0;
            out.push(s);
        }
        for (ci, c) in scn.conns.iter().enumerate() {
            if c.start_ms != 0 {
                let mut s = scn.clone();
                s.conns[ci].start_ms = 0;
                out.push(s);
            }
            for (oi, op) in c.script.iter().enumerate() {
                if let WOp::Ann { offers, ansp, t, ev, left, nowait } = op {
                    if *offers > 0 || ansp.is_some() {
                        let mut s = scn.clone();
                        s.conns[ci].script[oi] = WOp::Ann { t: *t, ev: *ev, left: *left, offers: offers.saturating_sub(1), ansp: None, nowait: *nowait };
                        out.push(s);
                    }
                }
            }
        }
        out
    }
}
