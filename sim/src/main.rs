//! `sim`: worker binary of the deterministic-simulation harnesses. Driven by /verif/check.
//!   sim batch  --harness H --prop Cxx --tier quick|thorough --seed S --first I --count N [--budget-s B] --out FILE
//!   sim replay --file REPLAY.json           (exit 1 and prints VIOLATION-REPRODUCED if it still fails)
mod core;
mod model;
mod prng;
mod udp_store;
mod http_store;
mod ws_store;
mod validator;
mod accesslist;
mod udp_sys;
mod bencode;
mod http_sys;
mod ws_sys;
mod export_crash;
mod lattice;
mod parsers;
mod recorder;

#[global_allocator]
static GLOBAL: aquatic_verif_rt::alloc::CountingAlloc = aquatic_verif_rt::alloc::CountingAlloc;

use crate::core::*;
use std::collections::BTreeMap;

fn args_map() -> (String, BTreeMap<String, String>) {
    let mut it = std::env::args().skip(1);
    let cmd = it.next().unwrap_or_default();
    let mut m = BTreeMap::new();
    let rest: Vec<String> = it.collect();
    let mut i = 0;
    while i < rest.len() {
        if let Some(k) = rest[i].strip_prefix("--") {
            if i + 1 < rest.len() && !rest[i + 1].starts_with("--") {
                m.insert(k.to_string(), rest[i + 1].clone());
                i += 2;
            } else {
                m.insert(k.to_string(), "1".into());
                i += 1;
            }
        } else {
            i += 1;
        }
    }
    (cmd, m)
}

macro_rules! dispatch {
    ($name:expr, $f:ident, $($args:expr),*) => {
        match $name {
            "udp_store" => $f::<udp_store::UdpStore>($($args),*),
            "http_store" => $f::<http_store::HttpStore>($($args),*),
            "ws_store" => $f::<ws_store::WsStore>($($args),*),
            "validator" => $f::<validator::Validator>($($args),*),
            "accesslist" => $f::<accesslist::AccessListHarness>($($args),*),
            "udp_sys" => $f::<udp_sys::UdpSys>($($args),*),
            "http_sys" => $f::<http_sys::HttpSys>($($args),*),
            "ws_sys" => $f::<ws_sys::WsSys>($($args),*),
            "export_crash" => $f::<export_crash::ExportCrash>($($args),*),
            "lattice" => $f::<lattice::Lattice>($($args),*),
            "parsers" => $f::<parsers::Parsers>($($args),*),
            other => {
                eprintln!("HARNESS-ERROR: unknown harness {:?}", other);
                std::process::exit(2);
            }
        }
    };
}

fn do_batch<H: Harness>(m: &BTreeMap<String, String>) -> i32 {
    let prop = m.get("prop").cloned().unwrap_or_default();
    let tier = if m.get("tier").map(|s| s.as_str()) == Some("thorough") { Tier::Thorough } else { Tier::Quick };
    let seed: u64 = m.get("seed").and_then(|s| s.parse().ok()).unwrap_or(1);
    let first: u64 = m.get("first").and_then(|s| s.parse().ok()).unwrap_or(0);
    let count: u64 = m.get("count").and_then(|s| s.parse().ok()).unwrap_or(100);
    let budget: f64 = m.get("budget-s").and_then(|s| s.parse().ok()).unwrap_or(0.0);
    let maxv: usize = m.get("max-violations").and_then(|s| s.parse().ok()).unwrap_or(6);
    let rep = run_batch::<H>(&prop, tier, seed, first, count, budget, maxv);
    let out = m.get("out").cloned().unwrap_or_else(|| "/dev/stdout".into());
    let js = serde_json::to_string(&rep).unwrap();
    std::fs::write(&out, js).expect("write batch report");
    // signature / state hashes as a binary sidecar (8 bytes each) for exact unions in the driver
    if out != "/dev/stdout" {
        let mut b = Vec::with_capacity(rep.stats.signatures.len() * 8);
        for s in &rep.stats.signatures {
            b.extend_from_slice(&s.to_le_bytes());
        }
        let _ = std::fs::write(format!("{}.sigs", out), b);
        let mut b = Vec::with_capacity(rep.stats.states.len() * 8);
        for s in rep.stats.states.iter().filter(|s| *s % 16 == 0) {
            b.extend_from_slice(&s.to_le_bytes());
        }
        let _ = std::fs::write(format!("{}.states", out), b);
    }
    if !rep.nondeterminism.is_empty() {
        eprintln!("HARNESS-ERROR: non-determinism detected: {:?}", rep.nondeterminism);
        return 2;
    }
    0
}

fn do_replay<H: Harness>(prop: &str, scenario: &serde_json::Value, want_check: &str, want_fp: &str) -> i32 {
    match replay::<H>(prop, scenario) {
        Ok(out) => {
            let fp = format!("{:016x}", out.fingerprint);
            let hit = out.violations.iter().find(|v| v.prop == prop && (want_check.is_empty() || v.check == want_check));
            match hit {
                Some(v) => {
                    println!("VIOLATION-REPRODUCED property={} check={} signature={} fingerprint={} fingerprint_matches={}", v.prop, v.check, v.signature, fp, want_fp.is_empty() || fp == want_fp);
                    println!("  detail: {}", v.detail);
                    if !want_fp.is_empty() && fp != want_fp {
                        eprintln!("HARNESS-ERROR: replay fingerprint {} differs from recorded {}", fp, want_fp);
                        return 2;
                    }
                    1
                }
                None => {
                    println!("NOT-REPRODUCED property={} fingerprint={} (other violations: {})", prop, fp, out.violations.len());
                    0
                }
            }
        }
        Err(e) => {
            eprintln!("HARNESS-ERROR: cannot replay: {:#}", e);
            2
        }
    }
}

fn main() {
    let (cmd, m) = args_map();
    install_quiet_panic_hook();
    let code = match cmd.as_str() {
        "batch" => {
            let h = m.get("harness").cloned().unwrap_or_default();
            dispatch!(h.as_str(), do_batch, &m)
        }
        "replay" => {
            let f = m.get("file").cloned().unwrap_or_default();
            let txt = std::fs::read_to_string(&f).unwrap_or_else(|e| {
                eprintln!("HARNESS-ERROR: cannot read {}: {}", f, e);
                std::process::exit(2)
            });
            let v: serde_json::Value = serde_json::from_str(&txt).unwrap_or_else(|e| {
                eprintln!("HARNESS-ERROR: bad replay file: {}", e);
                std::process::exit(2)
            });
            let h = v["harness"].as_str().unwrap_or("").to_string();
            let prop = v["prop"].as_str().unwrap_or("").to_string();
            let check = v["check"].as_str().unwrap_or("").to_string();
            let fp = v["fingerprint"].as_str().unwrap_or("").to_string();
            let scn = v["scenario"].clone();
            dispatch!(h.as_str(), do_replay, &prop, &scn, &check, &fp)
        }
        _ => {
            eprintln!("usage: sim batch|replay ...");
            2
        }
    };
    aquatic_verif_rt::fs::cleanup();
    std::process::exit(code);
}
