//! EXPORT-CRASH: `clean_and_update_statistics(export = true)` writing through the file seam
//! (real scratch files, numbered steps). For each generated history, export k runs to
//! completion; after more announces export k+1 is executed once per crash point (after
//! `create`, after each underlying `write`, after `flush`, after close = before the rename) and
//! once per I/O-error position, with an observer that looks at the configured path after every
//! single step (a reader scheduled between any two file-system calls). Whatever is published
//! under the configured path must be byte-identical to export k or be the complete export k+1.
//! Decides: C20 (atomic replacement, export fidelity).
use crate::core::*;
use crate::prng::Prng;
use aquatic_common::access_list::AccessListArcSwap;
use aquatic_common::{CanonicalSocketAddr, SecondsSinceServerStart, ValidUntil};
use aquatic_udp::config::Config;
use aquatic_udp::swarm::TorrentMaps;
use aquatic_udp_protocol::*;
use aquatic_verif_rt::fs;
use rand::rngs::SmallRng;
use rand::SeedableRng;
use serde::{Deserialize, Serialize};
use std::collections::{BTreeMap, BTreeSet};
use std::net::{IpAddr, Ipv4Addr, Ipv6Addr, SocketAddr};
use std::num::NonZeroU16;
use std::path::PathBuf;
use std::sync::{Arc, Mutex};

#[derive(Clone, Debug, Serialize, Deserialize, PartialEq)]
pub struct A {
    pub t: u16,
    pub h: u8,
    pub v6: bool,
    pub seeder: bool,
    pub stop: bool,
}

#[derive(Clone, Debug, Serialize, Deserialize)]
pub struct Scn {
    /// announces before export k
    pub pre: Vec<A>,
    /// announces between export k and export k+1
    pub mid: Vec<A>,
    /// extra torrents (one leecher each) so that the export spans several BufWriter flushes
    pub bulk: u16,
    /// file name of the export (extension variants matter for the temporary path)
    pub name: u8,
    /// fault batch: 0 = crash points, 1 = I/O error at every step, 2 = disk full after b bytes
    pub batch: u8,
    /// peers that announce right before every cleaning pass and have expired by the time it runs
    #[serde(default)]
    pub ghosts: u8,
}

fn ih(t: u16) -> [u8; 20] {
    let mut h = [0x11u8; 20];
    h[0] = (t % 251) as u8;
    h[1] = (t >> 8) as u8;
    h[2] = (t & 255) as u8;
    h
}

type Lines = BTreeSet<String>;

fn parse(bytes: &[u8]) -> Option<Lines> {
    let s = std::str::from_utf8(bytes).ok()?;
    if !s.is_empty() && !s.ends_with('\n') {
        return None;
    }
    let mut out = Lines::new();
    for l in s.lines() {
        let p: Vec<&str> = l.split(' ').collect();
        if p.len() != 4 || p[1].len() != 40 || p[2].parse::<u64>().is_err() || p[3].parse::<u64>().is_err() {
            return None;
        }
        out.insert(l.to_string());
    }
    Some(out)
}

struct World {
    maps: TorrentMaps,
    config: Config,
    tx: crossbeam_channel::Sender<aquatic_udp::common::StatisticsMessage>,
    access: Arc<AccessListArcSwap>,
    rng: SmallRng,
    /// model: (v6, torrent) -> host -> seeder
    model: BTreeMap<(bool, u16), BTreeMap<u8, bool>>,
    rx: crossbeam_channel::Receiver<aquatic_udp::common::StatisticsMessage>,
    /// PeerAdded minus PeerRemoved per peer id, as the statistics worker would count them
    tally: BTreeMap<u8, i64>,
    ghosts: u8,
    nt: u16,
    tally_reliable: bool,
}

impl World {
    fn announce(&mut self, a: &A) {
        self.announce_until(a, 1_000_000);
        let e = self.model.entry((a.v6, a.t)).or_default();
        if a.stop {
            e.remove(&a.h);
        } else {
            e.insert(a.h, a.seeder);
        }
        if e.is_empty() {
            self.model.remove(&(a.v6, a.t));
        }
    }
    fn announce_until(&mut self, a: &A, until: u32) {
        let req = AnnounceRequest {
            connection_id: ConnectionId::new(0),
            action_placeholder: Default::default(),
            transaction_id: TransactionId::new(1),
            info_hash: InfoHash(ih(a.t)),
            peer_id: PeerId([a.h; 20]),
            bytes_downloaded: NumberOfBytes::new(0),
            bytes_left: NumberOfBytes::new(if a.seeder { 0 } else { 1 }),
            bytes_uploaded: NumberOfBytes::new(0),
            event: if a.stop { AnnounceEvent::Stopped } else { AnnounceEvent::Started },
            ip_address: Ipv4AddrBytes([0; 4]),
            key: PeerKey::new(0),
            peers_wanted: NumberOfPeers::new(0),
            port: Port::new(NonZeroU16::new(7000).unwrap()),
        };
        let ip = if a.v6 { IpAddr::V6(Ipv6Addr::new(0x2001, 0xdb8, 0, 0, 0, 0, 0, a.h as u16 + 1)) } else { IpAddr::V4(Ipv4Addr::new(10, 0, 0, a.h)) };
        let src = CanonicalSocketAddr::new(SocketAddr::new(ip, 5000));
        let vu = ValidUntil::new_raw(SecondsSinceServerStart::new_raw(until));
        self.maps.announce(&self.config, &self.tx, &mut self.rng, &req, src, vu);
    }
    fn expected_lines(&self) -> Lines {
        let mut out = Lines::new();
        for ((v6, t), peers) in &self.model {
            let s = peers.values().filter(|x| **x).count();
            let hex: String = ih(*t).iter().map(|b| format!("{:02x}", b)).collect();
            out.insert(format!("{} {} {} {}", if *v6 { '6' } else { '4' }, hex, s, peers.len() - s));
        }
        out
    }
    /// One cleaning pass with export. Peers that have already expired (valid until 5, pass at 10)
    /// announce first: the pass has to drop them whatever happens to the export file.
    /// Returns what the pass reported: [torrents v4, peers v4, torrents v6, peers v6].
    fn export(&mut self) -> Result<[usize; 4], String> {
        use std::sync::atomic::Ordering::Relaxed;
        for g in 0..self.ghosts {
            let a = A { t: g as u16 % self.nt.max(1), h: 100 + g, v6: g % 2 == 1, seeder: g % 3 == 0, stop: false };
            self.announce_until(&a, 5);
        }
        let st: aquatic_udp::common::CachePaddedArc<aquatic_udp::common::IpVersionStatistics<aquatic_udp::common::SwarmWorkerStatistics>> = Default::default();
        // rename / unlink of scratch files are file steps while the tracker's code runs (interposed C symbols, rt::fs)
        fs::track_path_ops(true);
        let r = catch(|| self.maps.clean_and_update_statistics(&self.config, &st, &self.tx, &self.access, SecondsSinceServerStart::new_raw(10), true));
        fs::track_path_ops(false);
        while let Ok(m) = self.rx.try_recv() {
            match m {
                aquatic_udp::common::StatisticsMessage::PeerAdded(p) => *self.tally.entry(p.0[0]).or_default() += 1,
                aquatic_udp::common::StatisticsMessage::PeerRemoved(p) => *self.tally.entry(p.0[0]).or_default() -= 1,
                _ => {}
            }
        }
        self.tally.retain(|_, v| *v != 0);
        r.map(|_| [st.ipv4.torrents.load(Relaxed), st.ipv4.peers.load(Relaxed), st.ipv6.torrents.load(Relaxed), st.ipv6.peers.load(Relaxed)])
    }
    /// what a scrape says about every torrent the history touched, against the model (C01: after a cleaning pass the
    /// expired peers are gone, whatever happened to the export)
    fn check_scrapes(&self, what: &str) -> Option<Violation> {
        let mut keys: BTreeSet<(bool, u16)> = self.model.keys().copied().collect();
        for g in 0..self.ghosts {
            keys.insert((g % 2 == 1, g as u16 % self.nt.max(1)));
        }
        for (v6, t) in keys {
            let ip = if v6 { IpAddr::V6(Ipv6Addr::new(0x2001, 0xdb8, 0, 0, 0, 0, 0, 999)) } else { IpAddr::V4(Ipv4Addr::new(10, 0, 9, 9)) };
            let src = CanonicalSocketAddr::new(SocketAddr::new(ip, 5000));
            let req = ScrapeRequest { connection_id: ConnectionId::new(0), transaction_id: TransactionId::new(1), info_hashes: vec![InfoHash(ih(t))] };
            let r = match catch(|| self.maps.scrape(req, src)) {
                Ok(r) => r,
                Err(m) => return Some(Violation::new("C01", "scrape-panic", "scrape-panic", format!("{}: scrape panicked: {}", what, m))),
            };
            let got = r.torrent_stats.first().map(|s| (s.seeders.0.get() as usize, s.leechers.0.get() as usize)).unwrap_or((0, 0));
            let want = self.model.get(&(v6, t)).map(|p| (p.values().filter(|x| **x).count(), p.values().filter(|x| !**x).count())).unwrap_or((0, 0));
            if got != want {
                return Some(Violation::new("C01", "counts-after-cleaning-pass", "expired-peers-still-counted", format!("{}: after the cleaning pass torrent {} ({}) scrapes seeders/leechers {}/{} but {}/{} unexpired peers are stored", what, t, if v6 { "IPv6" } else { "IPv4" }, got.0, got.1, want.0, want.1)));
            }
        }
        None
    }
    /// totals and per-client tallies against the model, after a pass that was not killed
    fn check_totals(&self, got: [usize; 4], what: &str) -> Option<Violation> {
        let mut want = [0usize; 4];
        let mut ids: BTreeMap<u8, i64> = BTreeMap::new();
        for ((v6, _), peers) in &self.model {
            let o = if *v6 { 2 } else { 0 };
            want[o] += 1;
            want[o + 1] += peers.len();
            for h in peers.keys() {
                *ids.entry(*h).or_default() += 1;
            }
        }
        if got != want {
            return Some(Violation::new("C20", "totals-match-storage", "totals-after-pass", format!("{}: the pass reported torrents/peers v4 {}/{} v6 {}/{} but {}/{} and {}/{} are stored", what, got[0], got[1], got[2], got[3], want[0], want[1], want[2], want[3])));
        }
        if self.tally_reliable && self.tally != ids {
            return Some(Violation::new("C20", "client-tally", "tally-after-pass", format!("{}: peer-id tally from the statistics messages {:?} but stored peers carry {:?}", what, self.tally, ids)));
        }
        None
    }
}

pub struct ExportCrash;

impl Harness for ExportCrash {
    type Scn = Scn;
    const NAME: &'static str = "export_crash";
    const MINIMISE_BUDGET: u64 = 200;

    fn generate(seed: u64, _tier: Tier, _prop: &str) -> Scn {
        let mut r = Prng::stream(seed, "scenario");
        let ann = |r: &mut Prng, nt: u16| A { t: r.below(nt as u64) as u16, h: r.below(6) as u8, v6: r.chance(300), seeder: r.chance(400), stop: r.chance(150) };
        let nt = r.range(1, 8) as u16;
        let pre = (0..r.range(0, 20)).map(|_| ann(&mut r, nt)).collect();
        let mid = (0..r.range(1, 20)).map(|_| ann(&mut r, nt)).collect();
        let bulk = match r.below(5) {
            0 => 0,
            1 => r.range(1, 20) as u16,
            2 => r.range(150, 200) as u16,
            _ => r.range(330, 420) as u16,
        };
        let (name, batch) = (r.below(4) as u8, r.below(3) as u8);
        Scn { pre, mid, bulk, name, batch, ghosts: if r.chance(600) { r.range(1, 5) as u8 } else { 0 } }
    }

    fn execute(scn: &Scn, _prop: &str, stats: &mut Stats) -> Outcome {
        foldhash::verif_reset_seed_counter();
        fs::reset();
        let dir = fs::scratch_dir();
        let fname = match scn.name % 4 {
            0 => "udp-scrape-export.txt",
            1 => "export",
            2 => "export.v1.txt",
            _ => "scrape.export.list",
        };
        let path: PathBuf = dir.join(fname);
        let mut config = Config::default();
        config.scrape_exports.enable_scrape_exports = true;
        config.scrape_exports.path = path.clone();
        config.protocol.max_response_peers = 1;
        config.statistics.write_html_to_file = true;
        config.statistics.peer_clients = true;
        let tmp_path = config.scrape_exports.tmp_path();
        let (tx, rx) = crossbeam_channel::unbounded();
        let nt = scn.pre.iter().chain(scn.mid.iter()).map(|a| a.t + 1).max().unwrap_or(1);
        let mut w = World { maps: TorrentMaps::default(), config, tx, access: Arc::new(AccessListArcSwap::default()), rng: SmallRng::seed_from_u64(3), model: BTreeMap::new(), rx, tally: BTreeMap::new(), ghosts: scn.ghosts, nt, tally_reliable: scn.batch % 3 != 0 };
        let mut violations = Vec::new();
        let mut fp = 0u64;
        let fold = |h: &mut u64, x: u64| *h = (*h ^ x).wrapping_mul(0x100000001b3).rotate_left(9);
        for i in 0..scn.bulk {
            w.announce(&A { t: 1000 + i, h: 1, v6: i % 3 == 0, seeder: i % 2 == 0, stop: false });
        }
        for a in &scn.pre {
            w.announce(a);
        }
        // ---- export k, undisturbed
        match w.export() {
            Err(m) => {
                violations.push(Violation::new("C20", "export-panic", "export-panic", format!("export panicked: {}", m)));
                return Outcome { violations, fingerprint: fp, signature: None };
            }
            Ok(got) => {
                if let Some(v) = w.check_totals(got, "undisturbed pass").or_else(|| w.check_scrapes("undisturbed pass")) {
                    violations.push(v);
                    return Outcome { violations, fingerprint: fp, signature: None };
                }
            }
        }
        stats.evaluations += 1;
        let k_bytes = std::fs::read(&path).unwrap_or_default();
        match parse(&k_bytes) {
            Some(l) if l == w.expected_lines() => {}
            other => {
                violations.push(Violation::new("C20", "export-faithful", "export-content", format!("undisturbed export lists {:?} lines but {} torrents are stored (first difference: {:?})", other.as_ref().map(|l| l.len()), w.expected_lines().len(), other.map(|l| l.symmetric_difference(&w.expected_lines()).next().cloned()))));
                return Outcome { violations, fingerprint: fp, signature: None };
            }
        }
        for a in &scn.mid {
            w.announce(a);
        }
        let e_lines = w.expected_lines();
        // ---- undisturbed export k+1: count steps, then put export k back
        fs::reset_steps();
        match w.export() {
            Err(m) => {
                violations.push(Violation::new("C20", "export-panic", "export-panic", format!("export panicked: {}", m)));
                return Outcome { violations, fingerprint: fp, signature: None };
            }
            Ok(got) => {
                if let Some(v) = w.check_totals(got, "second undisturbed pass").or_else(|| w.check_scrapes("second undisturbed pass")) {
                    violations.push(v);
                    return Outcome { violations, fingerprint: fp, signature: None };
                }
            }
        }
        let n_steps = fs::steps();
        let trace = fs::trace();
        let n_writes = trace.iter().filter(|t| t.1 == fs::FsOp::Write).count();
        stats.probe_n("file-steps-per-export", n_steps);
        if n_writes >= 2 {
            stats.probe("export-spans-several-buffer-flushes");
        }
        let total_bytes: usize = trace.iter().filter(|t| t.1 == fs::FsOp::Write).map(|t| t.3).sum();
        match parse(&std::fs::read(&path).unwrap_or_default()) {
            Some(l) if l == e_lines => {}
            _ => {
                violations.push(Violation::new("C20", "export-faithful", "export-content", "second undisturbed export does not list exactly the stored torrents".into()));
                return Outcome { violations, fingerprint: fp, signature: None };
            }
        }
        let restore = |k: &[u8]| {
            std::fs::write(&path, k).unwrap();
            if tmp_path != path {
                let _ = std::fs::remove_file(&tmp_path);
            }
        };
        // what a reader may find under the configured path
        let judge = |bytes: &[u8]| -> Result<&'static str, String> {
            if bytes == k_bytes.as_slice() {
                return Ok("old");
            }
            match parse(bytes) {
                Some(l) if l == e_lines => Ok("new"),
                Some(l) => Err(format!("a well-formed but incomplete / wrong file of {} lines ({} expected, previous export had {} bytes)", l.len(), e_lines.len(), k_bytes.len())),
                None => Err(format!("a torn file of {} bytes", bytes.len())),
            }
        };
        // fault coordinates of this batch
        let mut cases: Vec<(String, fs::FsFaults)> = Vec::new();
        match scn.batch % 3 {
            0 => {
                for s in 1..=n_steps {
                    cases.push((format!("crash after file step {} of {} ({:?})", s, n_steps, trace.get(s as usize - 1).map(|t| &t.1)), fs::FsFaults { crash_after_step: Some(s), ..Default::default() }));
                }
            }
            1 => {
                for s in 1..=n_steps {
                    cases.push((format!("I/O error at file step {} of {} ({:?})", s, n_steps, trace.get(s as usize - 1).map(|t| &t.1)), fs::FsFaults { error_at_step: Some(s), ..Default::default() }));
                }
            }
            _ => {
                let mut bs: Vec<usize> = vec![0, 1, total_bytes / 2, total_bytes.saturating_sub(1), 8192, 8191, 8193, 16384];
                bs.retain(|b| *b <= total_bytes);
                bs.sort();
                bs.dedup();
                for b in bs {
                    cases.push((format!("disk full after {} of {} bytes", b, total_bytes), fs::FsFaults { enospc_after: Some((tmp_path.clone(), b)), ..Default::default() }));
                }
            }
        }
        let seen: Arc<Mutex<Option<String>>> = Arc::new(Mutex::new(None));
        for (what, faults) in cases {
            restore(&k_bytes);
            fs::reset_steps();
            fs::set_faults(faults);
            // the observer: a reader scheduled right after every file step
            let (p2, seen2, k2, e2) = (path.clone(), seen.clone(), k_bytes.clone(), e_lines.clone());
            fs::set_observer(Some(Box::new(move |step, op, _| {
                let bytes = std::fs::read(&p2).unwrap_or_default();
                let ok = bytes == k2 || parse(&bytes).map_or(false, |l| l == e2);
                if !ok {
                    let mut g = seen2.lock().unwrap();
                    if g.is_none() {
                        *g = Some(format!("a reader right after file step {} ({:?}) finds {} bytes that are neither the previous nor the complete new export", step, op, bytes.len()));
                    }
                }
            })));
            let r = w.export();
            fs::set_observer(None);
            fs::set_faults(fs::FsFaults::default());
            stats.evaluations += 1;
            let after = std::fs::read(&path).unwrap_or_default();
            let verdict = judge(&after);
            if std::env::var_os("VERIF_DEBUG").is_some() {
                eprintln!("case {}: result {:?} verdict {:?} trace {:?} tmp={:?}", what, r, verdict, fs::trace(), std::fs::metadata(&tmp_path).map(|m| m.len()));
            }
            fold(&mut fp, match &verdict {
                Ok("old") => 1,
                Ok(_) => 2,
                Err(_) => 3,
            });
            if let Some(s) = seen.lock().unwrap().take() {
                violations.push(Violation::new("C20", "export-replaced-atomically", "reader-sees-partial-export", format!("{}: {}", what, s)));
                break;
            }
            match (&r, &verdict) {
                (Err(m), _) if !m.contains("<crash point>") => {
                    violations.push(Violation::new("C20", "export-panic", "export-panic", format!("{}: export panicked: {}", what, m)));
                    break;
                }
                (_, Err(found)) => {
                    let sig = match scn.batch % 3 {
                        0 => "crash-leaves-partial-export",
                        1 => "io-error-publishes-incomplete-export",
                        _ => "disk-full-publishes-incomplete-export",
                    };
                    violations.push(Violation::new("C20", "export-replaced-atomically", sig, format!("{}: the configured path holds {}", what, found)));
                    break;
                }
                (_, Ok(which)) => stats.probe(if *which == "old" { "fault-left-previous-export" } else { "fault-left-complete-new-export" }),
            }
            // a failed export is not a failed pass: expired peers are gone and the totals are right
            if let Ok(got) = &r {
                stats.evaluations += 1;
                let (a, b) = (w.check_totals(*got, &what), w.check_scrapes(&what));
                if a.is_some() || b.is_some() {
                    violations.extend(a);
                    violations.extend(b);
                    break;
                }
                if w.ghosts > 0 {
                    stats.probe("pass-with-failed-export-still-expires-peers");
                }
            }
        }
        restore(&k_bytes);
        for (k, v) in fs::fired() {
            stats.fault(k, v);
        }
        let shape = (e_lines.len() as u64) << 40 ^ (k_bytes.len() as u64) << 16;
        Outcome { violations, fingerprint: fp, signature: Some(fp ^ (n_steps << 32) ^ scn.batch as u64 ^ shape) }
    }

    fn size(scn: &Scn) -> usize {
        scn.pre.len() + scn.mid.len() + (scn.bulk as usize + 9) / 10
    }

    fn shrink(scn: &Scn) -> Vec<Scn> {
        let mut out = Vec::new();
        if scn.bulk > 0 {
            for b in [0, scn.bulk / 2, scn.bulk.saturating_sub(10)] {
                if b < scn.bulk {
                    let mut s = scn.clone();
                    s.bulk = b;
                    out.push(s);
                }
            }
        }
        for (a, b) in chunk_removals(scn.pre.len()) {
            let mut s = scn.clone();
            s.pre.drain(a..b);
            out.push(s);
        }
        for (a, b) in chunk_removals(scn.mid.len()) {
            let mut s = scn.clone();
            s.mid.drain(a..b);
            out.push(s);
        }
        if scn.name != 0 {
            let mut s = scn.clone();
            s.name = 0;
            out.push(s);
        }
        if scn.ghosts > 0 {
            let mut s = scn.clone();
            s.ghosts -= 1;
            out.push(s);
        }
        out
    }
}
