//! HTTP-STORE: `aquatic_http`'s swarm storage (handle_announce_request / handle_scrape_request
//! / clean) under the stepped clock, refined against `RefTracker`. The storage RNG is the
//! simulator's: seeded SmallRng or an adversarial generator hitting both ends of every range.
//! Decides (quick tier): C07, C02 (HTTP part), C10 (HTTP part).
use crate::core::*;
use crate::model::*;
use crate::prng::Prng;
use crate::udp_store::{canon_ip, info_hash, peer_id, src_ip};
use aquatic_common::access_list::{AccessList, AccessListArcSwap, AccessListMode};
use aquatic_common::{CanonicalSocketAddr, ServerStartInstant, ValidUntil};
use aquatic_http::config::Config;
use aquatic_http::verif_export::TorrentMaps;
use aquatic_http_protocol::common::{AnnounceEvent, InfoHash, PeerId};
use aquatic_http_protocol::request::{AnnounceRequest, ScrapeRequest};
use aquatic_verif_rt::time;
use rand::rngs::SmallRng;
use rand::SeedableRng;
use serde::{Deserialize, Serialize};
use std::collections::BTreeMap;
use std::net::{IpAddr, SocketAddr};
use std::sync::Arc;

const INLINE: usize = 4;

#[derive(Clone, Debug, Serialize, Deserialize, PartialEq)]
pub enum Op {
    Ann { t: u8, v6: bool, #[serde(default)] ac: u8, h: u16, port: u16, ev: u8, left: u64, want: Option<u64>, pid: u8 },
    Scr { v6: bool, #[serde(default)] ac: u8, ts: Vec<u8> },
    Clean,
    Adv { secs: u64 },
}

#[derive(Clone, Debug, Serialize, Deserialize)]
pub struct Scn {
    pub max_peers: usize,
    pub max_scrape_torrents: usize,
    pub max_peer_age: u32,
    /// 0: SmallRng(rng_seed); 1..: adversarial pattern
    pub rng_mode: u8,
    pub rng_seed: u64,
    pub access_mode: u8,
    pub access_list: Vec<u8>,
    pub ops: Vec<Op>,
}

/// Simulator-owned RNG: cycles through range extremes, then pseudo-random values.
pub struct AdvRng {
    pub mode: u8,
    pub n: u64,
    pub state: u64,
}
impl AdvRng {
    fn next(&mut self) -> u64 {
        self.n += 1;
        let hi = u64::MAX - (1 << 33);
        let pat: &[u64] = match self.mode {
            1 => &[0, 0],
            2 => &[hi, hi],
            3 => &[0, hi],
            4 => &[hi, 0],
            _ => &[u64::MAX / 2, u64::MAX / 2 + 12345],
        };
        // extremes for three calls out of four, then a pseudo-random value
        if self.n % 8 < 6 {
            pat[(self.n % 2) as usize]
        } else {
            crate::prng::splitmix(&mut self.state)
        }
    }
}
impl rand::TryRng for AdvRng {
    type Error = std::convert::Infallible;
    fn try_next_u32(&mut self) -> Result<u32, Self::Error> {
        Ok((self.next() >> 32) as u32)
    }
    fn try_next_u64(&mut self) -> Result<u64, Self::Error> {
        Ok(self.next())
    }
    fn try_fill_bytes(&mut self, dst: &mut [u8]) -> Result<(), Self::Error> {
        for c in dst.chunks_mut(8) {
            let v = self.next().to_le_bytes();
            c.copy_from_slice(&v[..c.len()]);
        }
        Ok(())
    }
}

enum AnyRng {
    Small(SmallRng),
    Adv(AdvRng),
}

fn event_of(ev: u8) -> AnnounceEvent {
    match ev % 4 {
        0 => AnnounceEvent::Empty,
        1 => AnnounceEvent::Started,
        2 => AnnounceEvent::Completed,
        _ => AnnounceEvent::Stopped,
    }
}

pub struct HttpStore;

struct Exec<'a> {
    scn: &'a Scn,
    config: Config,
    maps: TorrentMaps,
    start: ServerStartInstant,
    access: Arc<AccessListArcSwap>,
    rng: AnyRng,
    model: RefTracker,
    violations: Vec<Violation>,
    transcript: u64,
    sig: u64,
    saw_removal: bool,
    saw_nonempty_announce: bool,
}

fn fold(h: &mut u64, x: u64) {
    *h = (*h ^ x).wrapping_mul(0x100000001b3).rotate_left(9);
}

impl<'a> Exec<'a> {
    fn now_secs(&self) -> u64 {
        time::manual_ns() / 1_000_000_000
    }
    fn allowed(&self, ih: &[u8; 20]) -> bool {
        let listed = self.scn.access_list.iter().any(|t| info_hash(*t) == *ih);
        match self.scn.access_mode {
            1 => listed,
            2 => !listed,
            _ => true,
        }
    }
    fn fail(&mut self, props: &[&str], check: &str, signature: &str, detail: String) {
        for p in props {
            self.violations.push(Violation::new(p, check, signature, detail.clone()));
        }
    }

    #[allow(clippy::too_many_arguments)]
    fn do_announce(&mut self, t: u8, v6: bool, ac: u8, h: u16, port: u16, ev: u8, left: u64, want: Option<u64>, pid: u8, stats: &mut Stats, probe: bool) {
        let ih = info_hash(t);
        let raw_ip = src_ip(v6, ac, h);
        let ip = canon_ip(raw_ip);
        let v6 = ip.is_ipv6();
        let fam = if v6 { Fam::V6 } else { Fam::V4 };
        if raw_ip != ip {
            stats.probe("ipv4-mapped-source");
        } else if matches!(raw_ip, IpAddr::V6(a) if a.octets()[..12].iter().all(|b| *b == 0)) {
            stats.probe("low-ipv6-source");
        }
        let key: Key = (ip, port);
        let event = event_of(ev);
        let stopped = matches!(event, AnnounceEvent::Stopped);
        let seeder = left == 0;
        let now = self.now_secs();
        let deadline = now + self.scn.max_peer_age as u64;
        let req = AnnounceRequest {
            info_hash: InfoHash(ih),
            peer_id: PeerId(peer_id(pid)),
            port,
            bytes_uploaded: 0,
            bytes_downloaded: 0,
            bytes_left: left as usize,
            event,
            numwant: want.map(|w| w as usize),
            key: None,
        };
        let src = CanonicalSocketAddr::new(SocketAddr::new(raw_ip, 1024 + (h % 50000)));
        let size_before = self.model.size(fam, &ih);
        let start = self.start;
        let age = self.scn.max_peer_age;
        let vu = match catch(move || ValidUntil::new(start, age)) {
            Ok(Some(v)) => v,
            Ok(None) => {
                self.fail(&["C10"], "deadline-computation", "valid-until-none", "ValidUntil::new returned None under a monotonic clock".into());
                return;
            }
            Err(msg) => {
                self.fail(&["C10", "C12"], "deadline-computation", "valid-until-overflow", format!("ValidUntil::new panicked at now={} s with max_peer_age={}: {}", now, age, msg));
                return;
            }
        };
        let cfg = self.config.clone();
        let maps = &mut self.maps;
        let rng = &mut self.rng;
        let res = catch(|| match rng {
            AnyRng::Small(r) => maps.handle_announce_request(&cfg, r, vu, src, req),
            AnyRng::Adv(r) => maps.handle_announce_request(&cfg, r, vu, src, req),
        });
        let resp = match res {
            Ok(r) => r,
            Err(msg) => {
                self.fail(&["C12", "C02", "C07"], "announce-panic", "announce-panic", format!("handle_announce_request panicked: {}", msg));
                return;
            }
        };
        stats.evaluations += 1;
        let view = self.model.announce(fam, ih, key, stopped, seeder, deadline, peer_id(pid));
        let (peers, other): (Vec<Key>, usize) = if v6 {
            (resp.peers6.0.iter().map(|p| (IpAddr::V6(p.ip_address), p.port)).collect(), resp.peers.0.len())
        } else {
            (resp.peers.0.iter().map(|p| (IpAddr::V4(p.ip_address), p.port)).collect(), resp.peers6.0.len())
        };
        fold(&mut self.transcript, resp.complete as u64);
        fold(&mut self.transcript, resp.incomplete as u64);
        for p in &peers {
            fold(&mut self.transcript, p.1 as u64);
        }
        if other != 0 {
            self.fail(&["C02", "C07", "C03"], "peers-same-family", "peers-same-family", format!("announce from source {:?} (canonical {:?}) got {} peers of the other address family", raw_ip, ip, other));
        }
        if resp.complete != view.seeders || resp.incomplete != view.leechers {
            let sig = if size_before > INLINE { "counts-heap" } else { "counts-inline" };
            self.fail(
                &["C07"],
                "announce-counts",
                sig,
                format!("announce t={} {:?}: reply complete/incomplete {}/{} but reference {}/{} (excluding the announcer)", t, key, resp.complete, resp.incomplete, view.seeders, view.leechers),
            );
        }
        let limit = limit_of(want.map(|w| w.min(i64::MAX as u64) as i64), self.scn.max_peers);
        if let Err((check, detail)) = check_peer_list(&peers, &view.candidates, &key, limit) {
            let props: &[&str] = if check == "peers-stored-member" || check == "peers-all-if-fit" { &["C02", "C07"] } else { &["C02"] };
            self.fail(props, check, check, format!("announce t={} {:?} numwant={:?} max_peers={}: {}", t, key, want, self.scn.max_peers, detail));
        }
        let size_after = self.model.size(fam, &ih);
        let cls = |n: usize| n.min(6) as u64;
        fold(&mut self.sig, 1 | (ev as u64 % 4) << 4 | (view.previous.is_some() as u64) << 8 | (seeder as u64) << 9 | cls(size_before) << 12 | cls(size_after) << 16 | (v6 as u64) << 20);
        if !probe {
            if stopped && view.previous.is_some() {
                self.saw_removal = true;
            }
            if !view.candidates.is_empty() {
                self.saw_nonempty_announce = true;
            }
            if size_before <= INLINE && size_after > INLINE {
                stats.probe("inline-to-heap");
            }
            if size_before > INLINE && size_after <= INLINE {
                stats.probe("heap-to-inline-by-stop");
            }
            if view.previous.as_ref().map_or(false, |p| p.seeder != seeder) && !stopped {
                stats.probe("seeder-status-flip");
            }
            if view.candidates.len() > limit {
                stats.probe("swarm-exceeds-limit");
            }
            if want.is_none() || want == Some(0) {
                stats.probe("numwant-absent-or-zero");
            }
        }
    }

    fn do_scrape(&mut self, v6: bool, ac: u8, ts: &[u8], stats: &mut Stats, props: &[&str], check: &str) {
        let raw_ip = src_ip(v6, ac, 999);
        let fam = Fam::of(&canon_ip(raw_ip));
        let req = ScrapeRequest { info_hashes: ts.iter().map(|t| InfoHash(info_hash(*t))).collect() };
        let src = CanonicalSocketAddr::new(SocketAddr::new(raw_ip, 5000));
        let cfg = self.config.clone();
        let maps = &mut self.maps;
        let resp = match catch(|| maps.handle_scrape_request(&cfg, src, req)) {
            Ok(r) => r,
            Err(msg) => {
                self.fail(&["C12", "C07"], "scrape-panic", "scrape-panic", format!("handle_scrape_request panicked: {}", msg));
                return;
            }
        };
        stats.evaluations += 1;
        // expected: each of the first max_scrape_torrents requested torrents once
        let taken: Vec<u8> = ts.iter().take(self.scn.max_scrape_torrents).copied().collect();
        let mut expected: BTreeMap<[u8; 20], (usize, usize)> = BTreeMap::new();
        for t in &taken {
            expected.insert(info_hash(*t), self.model.scrape(fam, &info_hash(*t)));
        }
        if ts.len() > self.scn.max_scrape_torrents {
            stats.probe("scrape-longer-than-limit");
        }
        if taken.len() != expected.len() {
            stats.probe("scrape-repeated-hash");
        }
        let got: BTreeMap<[u8; 20], (usize, usize)> = resp.files.iter().map(|(k, v)| (k.0, (v.complete, v.incomplete))).collect();
        for (k, v) in &got {
            fold(&mut self.transcript, k[1] as u64 | (v.0 as u64) << 8 | (v.1 as u64) << 24);
        }
        if got != expected {
            let extra: Vec<u8> = got.keys().filter(|k| !expected.contains_key(*k)).map(|k| k[1]).collect();
            let missing: Vec<u8> = expected.keys().filter(|k| !got.contains_key(*k)).map(|k| k[1]).collect();
            let sig = if !extra.is_empty() || !missing.is_empty() { "scrape-set" } else { "scrape-counts" };
            self.fail(
                props,
                check,
                sig,
                format!("scrape {:?} fam={:?} max_scrape_torrents={}: extra torrents {:?}, missing {:?}; got {:?}, reference {:?}", ts, fam, self.scn.max_scrape_torrents, extra, missing, got.iter().map(|(k, v)| (k[1], *v)).collect::<Vec<_>>(), expected.iter().map(|(k, v)| (k[1], *v)).collect::<Vec<_>>()),
            );
            return;
        }
        fold(&mut self.sig, 2 | (ts.len().min(15) as u64) << 4);
    }

    fn all_torrents(&self) -> Vec<u8> {
        let mut ts: Vec<u8> = self.scn.ops.iter().filter_map(|o| if let Op::Ann { t, .. } = o { Some(*t) } else { None }).collect();
        ts.sort();
        ts.dedup();
        ts
    }

    /// scrape every known torrent (in chunks that respect max_scrape_torrents)
    fn scrape_all(&mut self, stats: &mut Stats, props: &[&str], check: &str) {
        let ts = self.all_torrents();
        let chunk = self.scn.max_scrape_torrents.max(1);
        for c in ts.chunks(chunk) {
            if self.scn.max_scrape_torrents == 0 {
                break;
            }
            for v6 in [false, true] {
                if self.violations.is_empty() {
                    self.do_scrape(v6, if v6 { (c.len() % 3) as u8 } else { 0 }, c, stats, props, check);
                }
            }
        }
    }

    fn do_clean(&mut self, stats: &mut Stats) {
        self.scrape_all(stats, &["C07"], "scrape-counts");
        if !self.violations.is_empty() {
            return;
        }
        let now = self.now_secs();
        let cfg = self.config.clone();
        let al = self.access.clone();
        let start = self.start;
        let maps = &mut self.maps;
        if let Err(msg) = catch(|| maps.clean(&cfg, &al, start)) {
            self.fail(&["C12", "C07", "C10"], "clean-panic", "clean-panic", format!("clean panicked: {}", msg));
            return;
        }
        stats.evaluations += 1;
        let allowed_list: Vec<[u8; 20]> = self.scn.access_list.iter().map(|t| info_hash(*t)).collect();
        let mode = self.scn.access_mode;
        let allowed = move |ih: &[u8; 20]| match mode {
            1 => allowed_list.contains(ih),
            2 => !allowed_list.contains(ih),
            _ => true,
        };
        let mut at_deadline = false;
        let mut one_before = false;
        let mut heap_expiry = false;
        for l in self.model.torrents.values() {
            for (_, e) in l {
                if e.deadline == now {
                    at_deadline = true;
                    if l.len() > INLINE {
                        heap_expiry = true;
                    }
                }
                if e.deadline == now + 1 {
                    one_before = true;
                }
            }
        }
        let removed = self.model.clean(now, &allowed);
        if at_deadline {
            stats.probe("clean-exactly-at-deadline");
        }
        if one_before {
            stats.probe("clean-one-second-before-deadline");
        }
        if heap_expiry {
            stats.probe("expiry-in-heap-map");
        }
        if !removed.is_empty() {
            self.saw_removal = true;
            stats.probe("clean-removed-something");
        }
        fold(&mut self.sig, 3 | (removed.len().min(7) as u64) << 4 | (at_deadline as u64) << 8 | (one_before as u64) << 9);
        let (t4, t6) = (self.maps.ipv4.verif_num_torrents(), self.maps.ipv6.verif_num_torrents());
        let (m4, m6) = (self.model.num_torrents(Fam::V4), self.model.num_torrents(Fam::V6));
        if t4 != m4 || t6 != m6 {
            self.fail(&["C07", "C10"], "torrent-dropped-when-empty", "torrent-count", format!("after clean at {} s the storage holds {}/{} (v4/v6) torrent entries but {} / {} torrents have peers and are permitted", now, t4, t6, m4, m6));
            return;
        }
        self.scrape_all(stats, &["C10", "C07"], "state-after-clean");
    }

    fn sweep(&mut self, stats: &mut Stats) {
        self.scrape_all(stats, &["C07"], "final-scrape");
        for t in self.all_torrents() {
            for v6 in [false, true] {
                if !self.violations.is_empty() {
                    return;
                }
                self.do_announce(t, v6, 0, 60000, 9, 1, 1, Some(u32::MAX as u64), 250, stats, true);
                self.do_announce(t, v6, 0, 60000, 9, 3, 1, None, 250, stats, true);
            }
        }
    }
}

impl Harness for HttpStore {
    type Scn = Scn;
    const NAME: &'static str = "http_store";

    fn generate(seed: u64, tier: Tier, prop: &str) -> Scn {
        let mut r = Prng::stream(seed, "scenario");
        let max_peers = *r.pick(&[0usize, 1, 2, 3, 5, 30, 50, 100, 1000]);
        let max_scrape_torrents = *r.pick(&[0usize, 1, 2, 3, 5, 100]);
        let max_peer_age = if prop == "C10" && r.chance(40) { *r.pick(&[u32::MAX, u32::MAX - 1]) } else { *r.pick(&[1u32, 2, 3, 5, 30, 60, 1800]) };
        let access_mode = if r.chance(250) { r.range(1, 2) as u8 } else { 0 };
        let access_list: Vec<u8> = (0..r.below(5)).map(|_| r.below(8) as u8).collect();
        let n_ops = match tier {
            Tier::Quick => r.range(20, 120),
            Tier::Thorough => r.range(20, 400),
        } as usize;
        let n_torrents = r.range(1, 8) as u8;
        let n_hosts = r.range(2, 14) as u16;
        let ports: Vec<u16> = (0..r.range(1, 4)).map(|i| 1000 + i as u16).collect();
        let mut ops = Vec::new();
        let mut now: u64 = 0;
        let mut deadlines: Vec<u64> = Vec::new();
        if r.chance(if prop == "C02" { 300 } else { 60 }) {
            let size = if r.chance(300) { r.range(60, 700) } else { r.range(5, 70) } as u16;
            let t = r.below(n_torrents as u64) as u8;
            let v6 = r.chance(500);
            for h in 0..size {
                ops.push(Op::Ann { t, v6, ac: 0, h: 100 + h, port: 2000, ev: 1, left: if r.chance(300) { 0 } else { 5 }, want: None, pid: (h % 200) as u8 });
            }
            deadlines.push(now + max_peer_age as u64);
        }
        while ops.len() < n_ops {
            match r.weighted(&[62, 12, 10, 16]) {
                0 => {
                    let ev = if r.chance(200) { 3 } else { r.below(3) as u8 };
                    let left = match r.below(10) {
                        0..=3 => 0,
                        4 => u64::MAX >> 1,
                        _ => r.range(1, 1000),
                    };
                    let want = match r.below(12) {
                        0 | 1 => None,
                        2 => Some(0),
                        3 => Some(1),
                        4 => Some(2),
                        5 => Some(3),
                        6 => Some(u32::MAX as u64),
                        7 => Some(max_peers as u64),
                        8 => Some(max_peers as u64 + 1),
                        9 => Some((max_peers as u64).saturating_sub(1)),
                        _ => Some(r.range(1, 20)),
                    };
                    ops.push(Op::Ann { t: r.below(n_torrents as u64) as u8, v6: r.chance(400), ac: if r.chance(700) { 0 } else { r.range(1, 2) as u8 }, h: r.below(n_hosts as u64) as u16, port: *r.pick(&ports), ev, left, want, pid: r.below(8) as u8 });
                    if ev != 3 {
                        deadlines.push(now.saturating_add(max_peer_age as u64));
                    }
                }
                1 => {
                    let n = r.range(0, 7) as usize;
                    let ts = (0..n).map(|_| r.below(n_torrents as u64 + 2) as u8).collect();
                    ops.push(Op::Scr { v6: r.chance(400), ac: if r.chance(700) { 0 } else { r.range(1, 2) as u8 }, ts });
                }
                2 => ops.push(Op::Clean),
                _ => {
                    deadlines.retain(|d| *d + 1 > now);
                    if !deadlines.is_empty() && r.chance(600) {
                        let d = *r.pick(&deadlines);
                        let target = match r.below(3) {
                            0 => d.saturating_sub(1),
                            1 => d,
                            _ => d + 1,
                        };
                        if target > now {
                            ops.push(Op::Adv { secs: target - now });
                            now = target;
                        }
                        ops.push(Op::Clean);
                    } else {
                        let secs = match r.below(4) {
                            0 => 1,
                            1 => r.range(1, 5),
                            2 => r.range(1, (max_peer_age as u64).clamp(2, 4000)),
                            _ => r.range(1, 60),
                        };
                        ops.push(Op::Adv { secs });
                        now += secs;
                    }
                }
            }
        }
        let rng_mode = if r.chance(500) { 0 } else { r.range(1, 5) as u8 };
        Scn { max_peers, max_scrape_torrents, max_peer_age, rng_mode, rng_seed: r.next_u64(), access_mode, access_list, ops }
    }

    fn execute(scn: &Scn, _prop: &str, stats: &mut Stats) -> Outcome {
        time::set_manual_secs(0);
        foldhash::verif_reset_seed_counter();
        let mut config = Config::default();
        config.protocol.max_peers = scn.max_peers;
        config.protocol.max_scrape_torrents = scn.max_scrape_torrents;
        config.cleaning.max_peer_age = scn.max_peer_age;
        config.access_list.mode = match scn.access_mode {
            1 => AccessListMode::Allow,
            2 => AccessListMode::Deny,
            _ => AccessListMode::Off,
        };
        let mut list = AccessList::default();
        for t in &scn.access_list {
            let hex: String = info_hash(*t).iter().map(|b| format!("{:02x}", b)).collect();
            list.insert_from_line(&hex).unwrap();
        }
        let access: Arc<AccessListArcSwap> = Arc::new(arc_swap::ArcSwap::from_pointee(list));
        let rng = if scn.rng_mode == 0 { AnyRng::Small(SmallRng::seed_from_u64(scn.rng_seed)) } else { AnyRng::Adv(AdvRng { mode: scn.rng_mode, n: 0, state: scn.rng_seed }) };
        let mut ex = Exec {
            scn,
            config,
            maps: TorrentMaps::new(0),
            start: ServerStartInstant::new(),
            access,
            rng,
            model: RefTracker::default(),
            violations: Vec::new(),
            transcript: 0,
            sig: 0,
            saw_removal: false,
            saw_nonempty_announce: false,
        };
        for op in &scn.ops {
            if !ex.violations.is_empty() {
                break;
            }
            match op {
                Op::Ann { t, v6, ac, h, port, ev, left, want, pid } => {
                    if !ex.allowed(&info_hash(*t)) {
                        continue;
                    }
                    ex.do_announce(*t, *v6, *ac, *h, *port, *ev, *left, *want, *pid, stats, false)
                }
                Op::Scr { v6, ac, ts } => ex.do_scrape(*v6, *ac, ts, stats, &["C07"], "scrape-counts"),
                Op::Clean => ex.do_clean(stats),
                Op::Adv { secs } => {
                    let n = time::manual_ns() / 1_000_000_000 + secs;
                    time::set_manual_secs(n.min(u32::MAX as u64 - 10));
                }
            }
            stats.states.insert(ex.model.state_hash());
        }
        if ex.violations.is_empty() {
            ex.sweep(stats);
        }
        stats.sim_seconds += time::manual_ns() / 1_000_000_000;
        let nontrivial = ex.saw_removal && ex.saw_nonempty_announce;
        Outcome { violations: ex.violations, fingerprint: ex.transcript, signature: if nontrivial { Some(ex.sig) } else { None } }
    }

    fn size(scn: &Scn) -> usize {
        scn.ops.len()
    }

    fn shrink(scn: &Scn) -> Vec<Scn> {
        let mut out = Vec::new();
        for (a, b) in chunk_removals(scn.ops.len()) {
            let mut s = scn.clone();
            s.ops.drain(a..b);
            out.push(s);
        }
        if scn.access_mode != 0 {
            let mut s = scn.clone();
            s.access_mode = 0;
            out.push(s);
        }
        if scn.rng_mode != 0 {
            let mut s = scn.clone();
            s.rng_mode = 0;
            out.push(s);
        }
        if scn.ops.iter().any(|o| matches!(o, Op::Ann { v6: true, .. } | Op::Scr { v6: true, .. })) {
            let mut s = scn.clone();
            for o in s.ops.iter_mut() {
                match o {
                    Op::Ann { v6, .. } => *v6 = false,
                    Op::Scr { v6, .. } => *v6 = false,
                    _ => {}
                }
            }
            out.push(s);
        }
        for (i, op) in scn.ops.iter().enumerate() {
            match op {
                Op::Ann { t, v6, ac, h, port, ev, left, want, pid } => {
                    if want.is_some() {
                        let mut s = scn.clone();
                        s.ops[i] = Op::Ann { t: *t, v6: *v6, ac: *ac, h: *h, port: *port, ev: *ev, left: *left, want: None, pid: *pid };
                        out.push(s);
                    }
                    if *left > 1 {
                        let mut s = scn.clone();
                        s.ops[i] = Op::Ann { t: *t, v6: *v6, ac: *ac, h: *h, port: *port, ev: *ev, left: 1, want: *want, pid: *pid };
                        out.push(s);
                    }
                    if *ac != 0 {
                        let mut s = scn.clone();
                        s.ops[i] = Op::Ann { t: *t, v6: *v6, ac: 0, h: *h, port: *port, ev: *ev, left: *left, want: *want, pid: *pid };
                        out.push(s);
                    }
                }
                Op::Adv { secs } if *secs > 1 => {
                    let mut s = scn.clone();
                    s.ops[i] = Op::Adv { secs: secs / 2 };
                    out.push(s);
                    let mut s = scn.clone();
                    s.ops[i] = Op::Adv { secs: secs - 1 };
                    out.push(s);
                }
                Op::Scr { v6, ac, ts } if ts.len() > 1 => {
                    for k in 0..ts.len() {
                        let mut s = scn.clone();
                        let mut t2 = ts.clone();
                        t2.remove(k);
                        s.ops[i] = Op::Scr { v6: *v6, ac: *ac, ts: t2 };
                        out.push(s);
                    }
                }
                _ => {}
            }
        }
        out
    }
}
