//! A recording `metrics::Recorder`: what a prometheus scrape would show, kept where the oracle can read it.
//! Installed once per process; `reset()` before every run. Only the thread that holds the simulator's baton
//! ever touches it, so the (real) mutex is never contended and nothing here is a scheduling point.
use metrics::{Counter, CounterFn, Gauge, GaugeFn, Histogram, HistogramFn, Key, KeyName, Metadata, Recorder, SharedString, Unit};
use std::collections::BTreeMap;
use std::sync::{Arc, Mutex, Once};

static GAUGES: Mutex<BTreeMap<String, f64>> = Mutex::new(BTreeMap::new());
static COUNTERS: Mutex<BTreeMap<String, u64>> = Mutex::new(BTreeMap::new());
static INSTALL: Once = Once::new();

struct G(String);
struct C(String);
struct H;

impl GaugeFn for G {
    fn increment(&self, v: f64) {
        *GAUGES.lock().unwrap().entry(self.0.clone()).or_insert(0.0) += v;
    }
    fn decrement(&self, v: f64) {
        *GAUGES.lock().unwrap().entry(self.0.clone()).or_insert(0.0) -= v;
    }
    fn set(&self, v: f64) {
        GAUGES.lock().unwrap().insert(self.0.clone(), v);
    }
}
impl CounterFn for C {
    fn increment(&self, v: u64) {
        let mut g = COUNTERS.lock().unwrap();
        let e = g.entry(self.0.clone()).or_insert(0);
        *e = e.wrapping_add(v);
    }
    fn absolute(&self, v: u64) {
        let mut g = COUNTERS.lock().unwrap();
        let e = g.entry(self.0.clone()).or_insert(0);
        *e = (*e).max(v);
    }
}
impl HistogramFn for H {
    fn record(&self, _v: f64) {}
}

/// `name{k=v,k=v}` with labels sorted by key
fn ident(key: &Key) -> String {
    let mut labels: Vec<(String, String)> = key.labels().map(|l| (l.key().to_string(), l.value().to_string())).collect();
    labels.sort();
    let mut s = key.name().to_string();
    s.push('{');
    for (i, (k, v)) in labels.iter().enumerate() {
        if i > 0 {
            s.push(',');
        }
        s.push_str(k);
        s.push('=');
        s.push_str(v);
    }
    s.push('}');
    s
}

struct Rec;
impl Recorder for Rec {
    fn describe_counter(&self, _: KeyName, _: Option<Unit>, _: SharedString) {}
    fn describe_gauge(&self, _: KeyName, _: Option<Unit>, _: SharedString) {}
    fn describe_histogram(&self, _: KeyName, _: Option<Unit>, _: SharedString) {}
    fn register_counter(&self, key: &Key, _: &Metadata<'_>) -> Counter {
        Counter::from_arc(Arc::new(C(ident(key))))
    }
    fn register_gauge(&self, key: &Key, _: &Metadata<'_>) -> Gauge {
        Gauge::from_arc(Arc::new(G(ident(key))))
    }
    fn register_histogram(&self, _: &Key, _: &Metadata<'_>) -> Histogram {
        Histogram::from_arc(Arc::new(H))
    }
}

pub fn install() {
    INSTALL.call_once(|| {
        let _ = metrics::set_global_recorder(Rec);
    });
}

pub fn reset() {
    install();
    GAUGES.lock().unwrap().clear();
    COUNTERS.lock().unwrap().clear();
}

pub fn gauges() -> BTreeMap<String, f64> {
    GAUGES.lock().unwrap().clone()
}

pub fn counters() -> BTreeMap<String, u64> {
    COUNTERS.lock().unwrap().clone()
}
