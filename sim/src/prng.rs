//! One integer decides everything: VERIF_SEED -> SplitMix64 -> named, independent streams.
#[derive(Clone, Debug)]
pub struct Prng {
    s: [u64; 4],
}

pub fn splitmix(x: &mut u64) -> u64 {
    *x = x.wrapping_add(0x9E37_79B9_7F4A_7C15);
    let mut z = *x;
    z = (z ^ (z >> 30)).wrapping_mul(0xBF58_476D_1CE4_E5B9);
    z = (z ^ (z >> 27)).wrapping_mul(0x94D0_49BB_1331_11EB);
    z ^ (z >> 31)
}

pub fn mix(a: u64, b: u64) -> u64 {
    let mut x = a ^ b.wrapping_mul(0x9E37_79B9_7F4A_7C15).rotate_left(23);
    splitmix(&mut x)
}

pub fn hash_str(s: &str) -> u64 {
    let mut h: u64 = 0xcbf29ce484222325;
    for b in s.bytes() {
        h = (h ^ b as u64).wrapping_mul(0x100000001b3);
    }
    h
}

impl Prng {
    pub fn new(seed: u64) -> Self {
        let mut x = seed;
        Prng { s: [splitmix(&mut x), splitmix(&mut x), splitmix(&mut x), splitmix(&mut x)] }
    }
    /// independent stream derived from a seed and a name
    pub fn stream(seed: u64, name: &str) -> Self {
        Prng::new(mix(seed, hash_str(name)))
    }
    pub fn next_u64(&mut self) -> u64 {
        // xoshiro256**
        let r = self.s[1].wrapping_mul(5).rotate_left(7).wrapping_mul(9);
        let t = self.s[1] << 17;
        self.s[2] ^= self.s[0];
        self.s[3] ^= self.s[1];
        self.s[1] ^= self.s[2];
        self.s[0] ^= self.s[3];
        self.s[2] ^= t;
        self.s[3] = self.s[3].rotate_left(45);
        r
    }
    /// uniform in 0..n (n > 0)
    pub fn below(&mut self, n: u64) -> u64 {
        if n == 0 {
            return 0;
        }
        self.next_u64() % n
    }
    pub fn range(&mut self, lo: u64, hi_incl: u64) -> u64 {
        lo + self.below(hi_incl - lo + 1)
    }
    pub fn chance(&mut self, permille: u64) -> bool {
        self.below(1000) < permille
    }
    pub fn pick<'a, T>(&mut self, v: &'a [T]) -> &'a T {
        &v[self.below(v.len() as u64) as usize]
    }
    pub fn weighted(&mut self, weights: &[u64]) -> usize {
        let total: u64 = weights.iter().sum();
        let mut r = self.below(total.max(1));
        for (i, w) in weights.iter().enumerate() {
            if r < *w {
                return i;
            }
            r -= *w;
        }
        weights.len() - 1
    }
}
