//! C02-LATTICE: systematic sweep of (swarm size x limit x requester position x RNG outcome) for
//! the three peer-selection routines, complementing the sampled histories of the STORE
//! harnesses. One run = one swarm size (0..=S); inside it every limit of a fixed list, every
//! requester position (absent / first / middle / last) and, where the storage takes
//! `impl Rng`, the adversarial RNG patterns that force both ends of every `random_range`
//! (HTTP storage, WebTorrent `extract_response_peers`); UDP takes a concrete SmallRng, so 8 seeds.
use crate::core::*;
use crate::http_store::AdvRng;
use crate::model::*;
use aquatic_common::{CanonicalSocketAddr, IndexMap, SecondsSinceServerStart, ValidUntil};
use rand::rngs::SmallRng;
use rand::SeedableRng;
use serde::{Deserialize, Serialize};
use std::net::{IpAddr, Ipv4Addr, SocketAddr};
use std::num::NonZeroU16;

#[derive(Clone, Debug, Serialize, Deserialize)]
pub struct Scn {
    pub size: u16,
    /// restrict to one (limit, position, rng) triple when minimising
    #[serde(default)]
    pub only: Option<(u32, u8, u8)>,
}

pub struct Lattice;

const LIMITS: [u32; 16] = [0, 1, 2, 3, 4, 5, 6, 7, 8, 9, 10, 15, 30, 50, 100, 1000];

fn ip(h: u16) -> IpAddr {
    IpAddr::V4(Ipv4Addr::new(10, 1, (h >> 8) as u8, (h & 255) as u8))
}

fn positions(size: u16) -> Vec<(u8, Option<u16>)> {
    let mut v = vec![(0u8, None)];
    if size > 0 {
        v.push((1, Some(0)));
        v.push((2, Some(size / 2)));
        v.push((3, Some(size - 1)));
    }
    v
}

impl Harness for Lattice {
    type Scn = Scn;
    const NAME: &'static str = "lattice";
    const MINIMISE_BUDGET: u64 = 400;

    fn generate(seed: u64, tier: Tier, _prop: &str) -> Scn {
        // run index is folded into the seed by the driver; sizes cycle through 0..=S
        let s = match tier {
            Tier::Quick => 40,
            Tier::Thorough => 160,
        };
        Scn { size: (crate::prng::Prng::new(seed).below(s + 1)) as u16, only: None }
    }

    fn execute(scn: &Scn, _prop: &str, stats: &mut Stats) -> Outcome {
        foldhash::verif_reset_seed_counter();
        let mut violations: Vec<Violation> = Vec::new();
        let mut fp = 0u64;
        let fold = |h: &mut u64, x: u64| *h = (*h ^ x).wrapping_mul(0x100000001b3).rotate_left(9);
        let size = scn.size;
        let vu = ValidUntil::new_raw(SecondsSinceServerStart::new_raw(1_000_000));
        for limit in LIMITS {
            for (pcode, pos) in positions(size) {
                for rmode in 0..8u8 {
                    if let Some((l, p, r)) = scn.only {
                        if (l, p, r) != (limit, pcode, rmode) {
                            continue;
                        }
                    }
                    if !violations.is_empty() {
                        break;
                    }
                    // requester: an existing member (by position) or a fresh host
                    let req_host = pos.unwrap_or(60000);
                    let requester: Key = (ip(req_host), 7000);
                    let candidates: Vec<Key> = (0..size).filter(|h| Some(*h) != pos).map(|h| (ip(h), 7000)).collect();
                    // ---------------- HTTP storage, max_peers = limit, numwant absent / larger
                    if limit > 0 || rmode == 0 {
                        use aquatic_http_protocol::common::{AnnounceEvent, InfoHash, PeerId};
                        use aquatic_http_protocol::request::AnnounceRequest;
                        let mut cfg = aquatic_http::config::Config::default();
                        cfg.protocol.max_peers = 1000;
                        let mut maps = aquatic_http::verif_export::TorrentMaps::new(0);
                        let mut srng = SmallRng::seed_from_u64(1);
                        for h in 0..size {
                            let req = AnnounceRequest { info_hash: InfoHash([1; 20]), peer_id: PeerId([2; 20]), port: 7000, bytes_uploaded: 0, bytes_downloaded: 0, bytes_left: 1, event: AnnounceEvent::Started, numwant: Some(1), key: None };
                            maps.handle_announce_request(&cfg, &mut srng, vu, CanonicalSocketAddr::new(SocketAddr::new(ip(h), 1)), req);
                        }
                        // limit via numwant (<= max) for even rmode, via max_peers for odd
                        let (want, eff) = if rmode % 2 == 0 {
                            (if limit == 0 { None } else { Some(limit as usize) }, if limit == 0 { 1000 } else { limit as usize })
                        } else {
                            cfg.protocol.max_peers = limit as usize;
                            (Some(5000usize), limit as usize)
                        };
                        let req = AnnounceRequest { info_hash: InfoHash([1; 20]), peer_id: PeerId([2; 20]), port: 7000, bytes_uploaded: 0, bytes_downloaded: 0, bytes_left: 1, event: AnnounceEvent::Started, numwant: want, key: None };
                        let src = CanonicalSocketAddr::new(SocketAddr::new(ip(req_host), 1));
                        let r = if rmode < 5 {
                            let mut a = AdvRng { mode: rmode + 1, n: 0, state: 7 };
                            catch(|| maps.handle_announce_request(&cfg, &mut a, vu, src, req))
                        } else {
                            let mut s2 = SmallRng::seed_from_u64(rmode as u64 * 77 + size as u64);
                            catch(|| maps.handle_announce_request(&cfg, &mut s2, vu, src, req))
                        };
                        stats.evaluations += 1;
                        match r {
                            Err(m) => violations.push(Violation::new("C02", "selection-panic", "http-selection-panic", format!("HTTP size={} limit={} pos={} rng={}: panicked: {}", size, eff, pcode, rmode, m))),
                            Ok(resp) => {
                                let peers: Vec<Key> = resp.peers.0.iter().map(|p| (IpAddr::V4(p.ip_address), p.port)).collect();
                                fold(&mut fp, peers.len() as u64);
                                if let Err((c, d)) = check_peer_list(&peers, &candidates, &requester, eff) {
                                    violations.push(Violation::new("C02", c, &format!("http-{}", c), format!("HTTP size={} limit={} requester position={} rng mode={}: {}", size, eff, pcode, rmode, d)));
                                }
                                if candidates.len() > eff {
                                    stats.probe("lattice-swarm-exceeds-limit");
                                }
                            }
                        }
                    }
                    // ---------------- WebTorrent extract_response_peers (sender stays in the map)
                    {
                        let mut map: IndexMap<u16, u16> = IndexMap::default();
                        for h in 0..size {
                            map.insert(h, h);
                        }
                        let eff = limit as usize;
                        let r = if rmode < 5 {
                            let mut a = AdvRng { mode: rmode + 1, n: 0, state: 9 };
                            catch(|| aquatic_ws::workers::swarm::verif_export::extract_response_peers(&mut a, &map, eff, req_host, |_, v| *v))
                        } else {
                            let mut s2 = SmallRng::seed_from_u64(rmode as u64 * 131 + size as u64);
                            catch(|| aquatic_ws::workers::swarm::verif_export::extract_response_peers(&mut s2, &map, eff, req_host, |_, v| *v))
                        };
                        stats.evaluations += 1;
                        match r {
                            Err(m) => violations.push(Violation::new("C02", "selection-panic", "ws-selection-panic", format!("WS size={} limit={} pos={} rng={}: panicked: {}", size, eff, pcode, rmode, m))),
                            Ok(sel) => {
                                fold(&mut fp, sel.len() as u64 + 3);
                                let others: Vec<u16> = (0..size).filter(|h| Some(*h) != pos).collect();
                                let mut seen = std::collections::BTreeSet::new();
                                let mut bad: Option<(&str, String)> = None;
                                for p in &sel {
                                    if !seen.insert(*p) {
                                        bad = Some(("peers-distinct", format!("peer {} chosen twice", p)));
                                    } else if Some(*p) == pos {
                                        bad = Some(("peers-no-requester", "the sender was chosen to receive its own offer".into()));
                                    } else if !others.contains(p) {
                                        bad = Some(("peers-stored-member", format!("{} is not a stored member", p)));
                                    }
                                }
                                // WebTorrent: exactly min(limit, others)
                                let want = eff.min(others.len());
                                if bad.is_none() && sel.len() != want {
                                    bad = Some(("offer-receivers-exact", format!("{} receivers chosen, expected exactly {}", sel.len(), want)));
                                }
                                if let Some((c, d)) = bad {
                                    violations.push(Violation::new("C02", c, &format!("ws-{}", c), format!("WS size={} limit={} sender position={} rng mode={}: {}", size, eff, pcode, rmode, d)));
                                }
                            }
                        }
                    }
                    // ---------------- UDP storage (concrete SmallRng: seeds)
                    {
                        use aquatic_udp_protocol::*;
                        let mut cfg = aquatic_udp::config::Config::default();
                        cfg.protocol.max_response_peers = if rmode % 2 == 0 { 1000 } else { limit as usize };
                        let maps = aquatic_udp::swarm::TorrentMaps::default();
                        let (tx, _rx) = crossbeam_channel::unbounded();
                        let mut srng = SmallRng::seed_from_u64(rmode as u64 * 997 + size as u64 * 13 + limit as u64);
                        let mk = |want: i32| AnnounceRequest {
                            connection_id: ConnectionId::new(0),
                            action_placeholder: Default::default(),
                            transaction_id: TransactionId::new(1),
                            info_hash: InfoHash([1; 20]),
                            peer_id: PeerId([2; 20]),
                            bytes_downloaded: NumberOfBytes::new(0),
                            bytes_left: NumberOfBytes::new(1),
                            bytes_uploaded: NumberOfBytes::new(0),
                            event: AnnounceEvent::Started,
                            ip_address: Ipv4AddrBytes([0; 4]),
                            key: PeerKey::new(0),
                            peers_wanted: NumberOfPeers::new(want),
                            port: Port::new(NonZeroU16::new(7000).unwrap()),
                        };
                        for h in 0..size {
                            maps.announce(&cfg, &tx, &mut srng, &mk(1), CanonicalSocketAddr::new(SocketAddr::new(ip(h), 1)), vu);
                        }
                        let (want, eff) = if rmode % 2 == 0 { (if limit == 0 { -1 } else { limit as i32 }, if limit == 0 { 1000 } else { limit as usize }) } else { (i32::MAX, limit as usize) };
                        let src = CanonicalSocketAddr::new(SocketAddr::new(ip(req_host), 1));
                        let r = catch(|| maps.announce(&cfg, &tx, &mut srng, &mk(want), src, vu));
                        stats.evaluations += 1;
                        match r {
                            Err(m) => violations.push(Violation::new("C02", "selection-panic", "udp-selection-panic", format!("UDP size={} limit={} pos={} rng={}: panicked: {}", size, eff, pcode, rmode, m))),
                            Ok(Response::AnnounceIpv4(resp)) => {
                                let peers: Vec<Key> = resp.peers.iter().map(|p| (IpAddr::V4(Ipv4Addr::from(p.ip_address.0)), p.port.0.get())).collect();
                                fold(&mut fp, peers.len() as u64 + 11);
                                if let Err((c, d)) = check_peer_list(&peers, &candidates, &requester, eff) {
                                    violations.push(Violation::new("C02", c, &format!("udp-{}", c), format!("UDP size={} limit={} requester position={} seed mode={}: {}", size, eff, pcode, rmode, d)));
                                }
                            }
                            Ok(_) => violations.push(Violation::new("C02", "reply-kind", "udp-reply-kind", "IPv4 announce answered with another reply kind".into())),
                        }
                    }
                }
            }
        }
        Outcome { violations, fingerprint: fp, signature: Some(size as u64 + 1) }
    }

    fn size(scn: &Scn) -> usize {
        scn.size as usize + if scn.only.is_some() { 0 } else { 1000 }
    }

    fn shrink(scn: &Scn) -> Vec<Scn> {
        let mut out = Vec::new();
        if scn.only.is_none() {
            for limit in LIMITS {
                for (p, _) in positions(scn.size) {
                    for r in 0..8u8 {
                        out.push(Scn { size: scn.size, only: Some((limit, p, r)) });
                    }
                }
            }
        } else if scn.size > 0 {
            out.push(Scn { size: scn.size - 1, only: scn.only });
            out.push(Scn { size: scn.size / 2, only: scn.only });
        }
        out
    }
}
