//! VALIDATOR: `aquatic_udp`'s ConnectionValidator under the stepped clock. Several clones
//! (one per simulated socket worker) share the key but sample the clock at different
//! moments, exactly as the workers do. Decides (quick tier): C05.
use crate::core::*;
use crate::prng::Prng;
use aquatic_common::CanonicalSocketAddr;
use aquatic_udp::config::Config;
use aquatic_udp::workers::socket::ConnectionValidator;
use aquatic_udp_protocol::ConnectionId;
use aquatic_verif_rt::{rng, time};
use serde::{Deserialize, Serialize};
use std::net::{IpAddr, Ipv4Addr, Ipv6Addr, SocketAddr};

#[derive(Clone, Debug, Serialize, Deserialize, PartialEq)]
pub enum Step {
    /// advance the clock by whole seconds
    Adv { secs: u64 },
    /// worker `w` refreshes its clock sample (update_elapsed)
    Upd { w: u8 },
    /// worker `w` issues an id to address `a`
    Issue { w: u8, a: u8 },
    /// worker `w` checks honest id number `i` (modulo the number issued) presented from address `a`
    Check { w: u8, i: u8, a: u8 },
    /// worker `w` checks a forgery derived from honest id `i`: kind 0 one bit (`x`), 1 two bits (`x`,`y`),
    /// 2 arbitrary value, 3 id issued by another tracker instance (other key) for the same address
    Forge { w: u8, i: u8, kind: u8, x: u8, y: u8, r: u64 },
}

#[derive(Clone, Debug, Serialize, Deserialize)]
pub struct Scn {
    pub max_connection_age: u32,
    pub entropy_seed: u64,
    pub workers: u8,
    pub steps: Vec<Step>,
}

/// Address table: pairs that differ in one bit, v4 and its mapped form, both families.
pub fn addr(a: u8) -> SocketAddr {
    let ip: IpAddr = match a % 8 {
        0 => IpAddr::V4(Ipv4Addr::new(10, 1, 2, 3)),
        1 => IpAddr::V4(Ipv4Addr::new(10, 1, 2, 2)), // one bit from 0
        2 => IpAddr::V6(Ipv6Addr::new(0, 0, 0, 0, 0, 0xffff, 0x0a01, 0x0203)), // mapped form of 0
        3 => IpAddr::V6(Ipv6Addr::new(0x2001, 0xdb8, 0, 0, 0, 0, 0, 1)),
        4 => IpAddr::V6(Ipv6Addr::new(0x2001, 0xdb8, 0, 0, 0, 0, 0, 0)), // one bit from 3
        5 => IpAddr::V6(Ipv6Addr::new(0, 0, 0, 0, 0, 0, 0x0a01, 0x0203)), // ::10.1.2.3 (not mapped)
        6 => IpAddr::V4(Ipv4Addr::new(0, 0, 0, 0)),
        _ => IpAddr::V4(Ipv4Addr::new(255, 255, 255, 255)),
    };
    SocketAddr::new(ip, 1000 + a as u16)
}

fn canon(ip: IpAddr) -> IpAddr {
    crate::udp_store::canon_ip(ip)
}

pub struct Validator;

struct Honest {
    id: ConnectionId,
    issue: u64,
    ip: IpAddr,
    a: u8,
}

impl Harness for Validator {
    type Scn = Scn;
    const NAME: &'static str = "validator";

    fn generate(seed: u64, tier: Tier, _prop: &str) -> Scn {
        let mut r = Prng::stream(seed, "scenario");
        let age = *r.pick(&[0u32, 1, 2, 3, 59, 60, 61, 120, 121, 1 << 31, u32::MAX - 1, u32::MAX]);
        let workers = r.range(1, 3) as u8;
        let n = match tier {
            Tier::Quick => r.range(20, 120),
            Tier::Thorough => r.range(20, 300),
        };
        let mut steps = Vec::new();
        let mut now = 0u64;
        let mut issues: Vec<u64> = Vec::new();
        // optionally start late in the tracker's life (large issue times)
        if r.chance(250) {
            let secs = *r.pick(&[1u64 << 31, (1u64 << 32) - 400, 1_000_000, 4_000_000_000]);
            steps.push(Step::Adv { secs });
            now += secs;
            for w in 0..workers {
                steps.push(Step::Upd { w });
            }
        }
        while (steps.len() as u64) < n {
            match r.weighted(&[20, 14, 14, 32, 20]) {
                0 => {
                    // aim at an expiry boundary of some issued id, or a small / large step
                    let secs = if !issues.is_empty() && r.chance(650) {
                        let i = *r.pick(&issues);
                        let target = (i + age as u64).saturating_sub(1) + r.below(3);
                        if target > now {
                            target - now
                        } else {
                            r.range(1, 3)
                        }
                    } else {
                        *r.pick(&[1u64, 1, 2, 30, 59, 60, 61, 62, 200])
                    };
                    if now + secs < (1u64 << 32) - 10 {
                        steps.push(Step::Adv { secs });
                        now += secs;
                        // most of the time every worker refreshes soon after
                        for w in 0..workers {
                            if r.chance(700) {
                                steps.push(Step::Upd { w });
                            }
                        }
                    }
                }
                1 => steps.push(Step::Upd { w: r.below(workers as u64) as u8 }),
                2 => {
                    steps.push(Step::Issue { w: r.below(workers as u64) as u8, a: r.below(8) as u8 });
                    issues.push(now);
                }
                3 => {
                    let a = r.below(8) as u8;
                    steps.push(Step::Check { w: r.below(workers as u64) as u8, i: r.below(32) as u8, a: if r.chance(600) { 255 } else { a } });
                }
                _ => steps.push(Step::Forge { w: r.below(workers as u64) as u8, i: r.below(32) as u8, kind: r.below(4) as u8, x: r.below(64) as u8, y: r.below(64) as u8, r: r.next_u64() }),
            }
        }
        Scn { max_connection_age: age, entropy_seed: r.next_u64(), workers, steps }
    }

    fn execute(scn: &Scn, _prop: &str, stats: &mut Stats) -> Outcome {
        let out = run_once(scn, scn.entropy_seed, stats);
        // a forged id is accepted by chance with probability 2^-32: a forgery violation only
        // counts if it also happens under a different key
        if out.violations.iter().any(|v| v.check == "forgery-rejected") {
            let mut scratch = Stats::default();
            let again = run_once(scn, scn.entropy_seed ^ 0x5555_aaaa_1234_5678, &mut scratch);
            if !again.violations.iter().any(|v| v.check == "forgery-rejected") {
                stats.probe("forgery-chance-collision-discarded");
                return Outcome { violations: out.violations.into_iter().filter(|v| v.check != "forgery-rejected").collect(), ..out };
            }
        }
        out
    }

    fn size(scn: &Scn) -> usize {
        scn.steps.len()
    }

    fn shrink(scn: &Scn) -> Vec<Scn> {
        let mut out = Vec::new();
        for (a, b) in chunk_removals(scn.steps.len()) {
            let mut s = scn.clone();
            s.steps.drain(a..b);
            out.push(s);
        }
        if scn.workers > 1 {
            let mut s = scn.clone();
            s.workers -= 1;
            out.push(s);
        }
        for (i, st) in scn.steps.iter().enumerate() {
            if let Step::Adv { secs } = st {
                if *secs > 1 {
                    let mut s = scn.clone();
                    s.steps[i] = Step::Adv { secs: secs - 1 };
                    out.push(s);
                    let mut s = scn.clone();
                    s.steps[i] = Step::Adv { secs: secs / 2 };
                    out.push(s);
                }
            }
        }
        out
    }
}

fn run_once(scn: &Scn, entropy: u64, stats: &mut Stats) -> Outcome {
    time::set_manual_secs(0);
    rng::reseed(entropy);
    let mut config = Config::default();
    config.cleaning.max_connection_age = scn.max_connection_age;
    let age = scn.max_connection_age as u64;
    let base = match catch(|| ConnectionValidator::new(&config)) {
        Ok(Ok(v)) => v,
        _ => return Outcome { violations: vec![Violation::new("C05", "validator-new", "validator-new", "ConnectionValidator::new failed".into())], ..Default::default() },
    };
    // another tracker instance ("previous run"): different key
    let foreign = ConnectionValidator::new(&config).unwrap();
    let nw = scn.workers.max(1) as usize;
    let mut vals: Vec<ConnectionValidator> = (0..nw).map(|_| base.clone()).collect();
    let mut sample: Vec<u64> = vec![0; nw];
    let mut honest: Vec<Honest> = Vec::new();
    let mut violations = Vec::new();
    let mut fp = 0u64;
    let mut sig = 0u64;
    let (mut acc, mut rej_exp, mut rej_ip, mut rej_future) = (0u64, 0u64, 0u64, 0u64);
    let fold = |h: &mut u64, x: u64| *h = (*h ^ x).wrapping_mul(0x100000001b3).rotate_left(9);
    for st in &scn.steps {
        if !violations.is_empty() {
            break;
        }
        match st {
            Step::Adv { secs } => {
                let n = time::manual_ns() / 1_000_000_000 + secs;
                time::set_manual_secs(n.min((1u64 << 32) - 2));
            }
            Step::Upd { w } => {
                let w = *w as usize % nw;
                vals[w].update_elapsed();
                sample[w] = time::manual_ns() / 1_000_000_000;
            }
            Step::Issue { w, a } => {
                let w = *w as usize % nw;
                let src = CanonicalSocketAddr::new(addr(*a));
                let id = vals[w].create_connection_id(src);
                honest.push(Honest { id, issue: sample[w], ip: canon(addr(*a).ip()), a: *a });
                stats.evaluations += 1;
            }
            Step::Check { w, i, a } => {
                if honest.is_empty() {
                    continue;
                }
                let w = *w as usize % nw;
                let h = &honest[*i as usize % honest.len()];
                let from = if *a == 255 { h.a } else { *a };
                let src = CanonicalSocketAddr::new(addr(from));
                let got = match catch(|| vals[w].connection_id_valid(src, h.id)) {
                    Ok(g) => g,
                    Err(m) => {
                        violations.push(Violation::new("C05", "validator-panic", "validator-panic", format!("connection_id_valid panicked: {}", m)));
                        violations.push(Violation::new("C12", "validator-panic", "validator-panic", format!("connection_id_valid panicked: {}", m)));
                        break;
                    }
                };
                stats.evaluations += 1;
                let now = sample[w];
                let same_ip = canon(addr(from).ip()) == h.ip;
                let not_expired = now < h.issue + age; // fewer than max_connection_age seconds passed
                let not_future = h.issue <= now + 60;
                let expect = same_ip && not_expired && not_future;
                fold(&mut fp, got as u64 | (expect as u64) << 1);
                if got != expect {
                    let (check, sigs) = if !same_ip {
                        ("bound-to-source-ip", "other-ip-accepted")
                    } else if !not_future {
                        ("future-issue-time-rejected", "future-accepted")
                    } else if got {
                        ("expiry-window", "accepted-after-expiry")
                    } else {
                        ("expiry-window", "rejected-before-expiry")
                    };
                    violations.push(Violation::new(
                        "C05",
                        check,
                        sigs,
                        format!(
                            "id issued at worker-clock {} s to {:?}, checked by worker {} at its clock {} s from {:?}, max_connection_age {}: valid={} but expected {} (same_ip={}, age ok={}, not in far future={})",
                            h.issue, h.ip, w, now, addr(from).ip(), age, got, expect, same_ip, not_expired, not_future
                        ),
                    ));
                    break;
                }
                if got {
                    acc += 1;
                    if now + 1 == h.issue + age {
                        stats.probe("accepted-in-last-valid-second");
                    }
                    if addr(from).ip() != addr(h.a).ip() {
                        stats.probe("accepted-via-ipv4-mapped-form");
                    }
                } else if !same_ip {
                    rej_ip += 1;
                } else if !not_future {
                    rej_future += 1;
                    stats.probe("rejected-future-issue-time");
                } else {
                    rej_exp += 1;
                    if now == h.issue + age {
                        stats.probe("rejected-exactly-at-expiry");
                    }
                }
                fold(&mut sig, 1 | (got as u64) << 4 | (same_ip as u64) << 5 | (not_expired as u64) << 6 | (not_future as u64) << 7 | ((now == h.issue + age) as u64) << 8);
            }
            Step::Forge { w, i, kind, x, y, r } => {
                let w = *w as usize % nw;
                let (basis, a) = if honest.is_empty() { (ConnectionId::new(0), 0u8) } else {
                    let h = &honest[*i as usize % honest.len()];
                    (h.id, h.a)
                };
                let v = basis.0.get();
                let forged = match kind % 4 {
                    0 => v ^ (1i64 << (*x % 64)),
                    1 => {
                        let f = v ^ (1i64 << (*x % 64)) ^ (1i64 << (*y % 64));
                        if f == v {
                            v ^ 1
                        } else {
                            f
                        }
                    }
                    2 => *r as i64,
                    _ => {
                        let mut f2 = foreign.clone();
                        f2.update_elapsed();
                        f2.create_connection_id(CanonicalSocketAddr::new(addr(a))).0.get()
                    }
                };
                if honest.iter().any(|h| h.id.0.get() == forged) {
                    continue;
                }
                let src = CanonicalSocketAddr::new(addr(a));
                let got = catch(|| vals[w].connection_id_valid(src, ConnectionId::new(forged))).unwrap_or(true);
                stats.evaluations += 1;
                stats.probe(match kind % 4 {
                    0 => "forgery-one-bit",
                    1 => "forgery-two-bits",
                    2 => "forgery-arbitrary",
                    _ => "forgery-other-instance",
                });
                fold(&mut fp, got as u64);
                if got {
                    violations.push(Violation::new(
                        "C05",
                        "forgery-rejected",
                        match kind % 4 {
                            0 => "one-bit-flip-accepted",
                            1 => "two-bit-flip-accepted",
                            2 => "arbitrary-id-accepted",
                            _ => "other-instance-id-accepted",
                        },
                        format!("an id this tracker did not issue ({:#018x}, kind {}) was accepted from {:?}", forged, kind % 4, addr(a).ip()),
                    ));
                    break;
                }
                fold(&mut sig, 2 | (*kind as u64 % 4) << 4);
            }
        }
    }
    stats.sim_seconds += time::manual_ns() / 1_000_000_000;
    let nontrivial = acc > 0 && rej_exp > 0 && (rej_ip > 0 || rej_future > 0);
    Outcome { violations, fingerprint: fp, signature: if nontrivial { Some(sig) } else { None } }
}
