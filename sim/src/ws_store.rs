//! WS-STORE: `aquatic_ws`'s swarm storage (announce incl. offers/answers, scrape,
//! connection-closed, clean) driven with the `InMessageMeta`s of several simulated socket
//! workers whose per-worker connection ids coincide (one real `DenseSlotMap` per worker).
//! The socket worker's per-connection bookkeeping that decides what a close retracts
//! (`announced_info_hashes`) is mirrored here exactly as `ConnectionReader` keeps it; the
//! real bookkeeping runs in WS-SYS.
//! Decides (quick tier): C08, C09, C02 (WebTorrent part), C10 (WebTorrent part).
use crate::core::*;
use crate::prng::Prng;
use aquatic_common::access_list::{AccessList, AccessListArcSwap, AccessListMode};
use aquatic_common::ServerStartInstant;
use aquatic_verif_rt::time;
use aquatic_ws::common::{ConnectionId, ConsumerId, InMessageMeta, IpVersion, OutMessageMeta};
use aquatic_ws::config::Config;
use aquatic_ws::workers::swarm::verif_export::TorrentMaps;
use aquatic_ws_protocol::common::*;
use aquatic_ws_protocol::incoming::{AnnounceEvent, AnnounceRequest, AnnounceRequestOffer, ScrapeRequest, ScrapeRequestInfoHashes};
use aquatic_ws_protocol::outgoing::OutMessage;
use rand::rngs::SmallRng;
use rand::SeedableRng;
use serde::{Deserialize, Serialize};
use slotmap::DenseSlotMap;
use std::collections::{BTreeMap, BTreeSet};
use std::sync::Arc;

type H20 = [u8; 20];

#[derive(Clone, Debug, Serialize, Deserialize, PartialEq)]
pub enum Op {
    /// open a connection on socket worker `w`
    Open { w: u8, v6: bool },
    /// announce on connection `c` (index in order of Open ops)
    /// `ansp`: answer the k-th offer this connection has received so far (resolved at run
    /// time from what the tracker really forwarded); `answer`: raw (to peer, offer id)
    Ann { c: u8, t: u8, pid: u8, ev: Option<u8>, left: Option<u64>, offers: Vec<u8>, answer: Option<(u8, u8)>, #[serde(default)] ansp: Option<(u8, bool)> },
    /// scrape: None = no info_hash field, Some(list); `single` sends one hash unwrapped
    Scr { c: u8, ts: Option<Vec<u8>>, single: bool },
    Close { c: u8 },
    Clean,
    Adv { secs: u64 },
}

#[derive(Clone, Debug, Serialize, Deserialize)]
pub struct Scn {
    pub max_offers: usize,
    pub max_scrape_torrents: usize,
    pub max_peer_age: u32,
    pub max_offer_age: u32,
    pub rng_seed: u64,
    pub access_mode: u8,
    pub access_list: Vec<u8>,
    pub ops: Vec<Op>,
}

pub fn info_hash(t: u8) -> H20 {
    let mut h = [9u8; 20];
    h[0] = t;
    h[19] = t.wrapping_mul(17);
    h
}
pub fn peer_id(p: u8) -> H20 {
    let mut id = [b'p'; 20];
    id[0] = b'-';
    id[1] = b'W';
    id[2] = b'W';
    id[19] = p;
    id
}
pub fn offer_id(o: u8) -> H20 {
    let mut id = [b'o'; 20];
    id[19] = o;
    id
}

#[derive(Clone, Debug)]
struct MEntry {
    owner: usize,
    seeder: bool,
    deadline: u64,
    /// (answerer peer id, offer id) -> deadline
    expecting: BTreeMap<(H20, H20), u64>,
}

#[derive(Default)]
struct Model {
    /// (v6, info hash) -> peers in insertion order
    torrents: BTreeMap<(bool, H20), Vec<(H20, MEntry)>>,
}

impl Model {
    fn counts(&self, v6: bool, ih: &H20) -> (usize, usize) {
        match self.torrents.get(&(v6, *ih)) {
            Some(l) => {
                let s = l.iter().filter(|(_, e)| e.seeder).count();
                (s, l.len() - s)
            }
            None => (0, 0),
        }
    }
    fn get(&self, v6: bool, ih: &H20, pid: &H20) -> Option<&MEntry> {
        self.torrents.get(&(v6, *ih)).and_then(|l| l.iter().find(|(p, _)| p == pid).map(|(_, e)| e))
    }
    fn get_mut(&mut self, v6: bool, ih: &H20, pid: &H20) -> Option<&mut MEntry> {
        self.torrents.get_mut(&(v6, *ih)).and_then(|l| l.iter_mut().find(|(p, _)| p == pid).map(|(_, e)| e))
    }
    fn remove(&mut self, v6: bool, ih: &H20, pid: &H20) -> Option<MEntry> {
        let l = self.torrents.get_mut(&(v6, *ih))?;
        let i = l.iter().position(|(p, _)| p == pid)?;
        let e = l.remove(i).1;
        if l.is_empty() {
            self.torrents.remove(&(v6, *ih));
        }
        Some(e)
    }
    fn state_hash(&self) -> u64 {
        let mut h: u64 = 0xcbf29ce484222325;
        for ((v6, ih), l) in &self.torrents {
            h = (h ^ (*v6 as u64 | (ih[0] as u64) << 8)).wrapping_mul(0x100000001b3);
            let mut ks: Vec<_> = l.iter().map(|(p, e)| (p[19], e.seeder, e.owner, e.expecting.len())).collect();
            ks.sort();
            for (p, s, o, x) in ks {
                h = (h ^ (p as u64 | (s as u64) << 8 | (o as u64) << 9 | (x.min(7) as u64) << 20)).wrapping_mul(0x100000001b3).rotate_left(5);
            }
        }
        h
    }
}

struct ConnState {
    worker: u8,
    v6: bool,
    id: ConnectionId,
    open: bool,
    /// mirror of ConnectionCleanupData::announced_info_hashes
    announced: BTreeMap<H20, H20>,
    /// offers the tracker forwarded to this connection: (torrent, from pid, offer id)
    inbox: Vec<(u8, u8, u8)>,
}

pub struct WsStore;

struct Exec<'a> {
    scn: &'a Scn,
    config: Config,
    maps: TorrentMaps,
    start: ServerStartInstant,
    access: Arc<AccessListArcSwap>,
    rng: SmallRng,
    model: Model,
    slotmaps: Vec<DenseSlotMap<ConnectionId, ()>>,
    conns: Vec<ConnState>,
    violations: Vec<Violation>,
    transcript: u64,
    sig: u64,
    saw_removal: bool,
    saw_relay: bool,
}

fn fold(h: &mut u64, x: u64) {
    *h = (*h ^ x).wrapping_mul(0x100000001b3).rotate_left(9);
}

impl<'a> Exec<'a> {
    fn now_secs(&self) -> u64 {
        time::manual_ns() / 1_000_000_000
    }
    fn allowed(&self, ih: &H20) -> bool {
        let listed = self.scn.access_list.iter().any(|t| info_hash(*t) == *ih);
        match self.scn.access_mode {
            1 => listed,
            2 => !listed,
            _ => true,
        }
    }
    fn fail(&mut self, props: &[&str], check: &str, signature: &str, detail: String) {
        for p in props {
            self.violations.push(Violation::new(p, check, signature, detail.clone()));
        }
    }
    fn meta(&self, c: usize, scrape: bool) -> InMessageMeta {
        let cs = &self.conns[c];
        InMessageMeta {
            out_message_consumer_id: ConsumerId(cs.worker),
            connection_id: cs.id,
            ip_version: if cs.v6 { IpVersion::V6 } else { IpVersion::V4 },
            pending_scrape_id: if scrape { Some(aquatic_ws::common::PendingScrapeId(0)) } else { None },
        }
    }
    /// which connection an out-message is addressed to
    fn addressee(&self, m: &OutMessageMeta) -> Option<usize> {
        self.conns.iter().position(|c| c.worker == m.out_message_consumer_id.0 && c.id == m.connection_id)
    }

    fn do_open(&mut self, w: u8, v6: bool) {
        while self.slotmaps.len() <= w as usize {
            self.slotmaps.push(DenseSlotMap::with_key());
        }
        let id = self.slotmaps[w as usize].insert(());
        self.conns.push(ConnState { worker: w, v6, id, open: true, announced: BTreeMap::new(), inbox: Vec::new() });
    }

    fn do_close(&mut self, c: usize, stats: &mut Stats) {
        if c >= self.conns.len() || !self.conns[c].open {
            return;
        }
        self.conns[c].open = false;
        let (w, id, v6) = (self.conns[c].worker, self.conns[c].id, self.conns[c].v6);
        self.slotmaps[w as usize].remove(id);
        let announced = std::mem::take(&mut self.conns[c].announced);
        let ipv = if v6 { IpVersion::V6 } else { IpVersion::V4 };
        for (ih, pid) in &announced {
            let maps = &mut self.maps;
            if let Err(msg) = catch(|| maps.handle_connection_closed(InfoHash(*ih), PeerId(*pid), ipv, ConsumerId(w), id)) {
                self.fail(&["C12", "C08"], "close-panic", "close-panic", format!("handle_connection_closed panicked: {}", msg));
                return;
            }
        }
        stats.evaluations += 1;
        // model: remove exactly the entries this connection created
        let keys: Vec<(bool, H20)> = self.model.torrents.keys().copied().collect();
        let mut removed = 0;
        for k in keys {
            let l = self.model.torrents.get_mut(&k).unwrap();
            let before = l.len();
            l.retain(|(_, e)| e.owner != c);
            removed += before - l.len();
            if l.is_empty() {
                self.model.torrents.remove(&k);
            }
        }
        if removed > 0 {
            self.saw_removal = true;
            stats.probe("close-removed-entries");
        }
        let foreign = announced.iter().any(|(ih, pid)| self.model.get(v6, ih, pid).is_some());
        if foreign {
            stats.probe("close-after-ignored-announce");
        }
        fold(&mut self.sig, 4 | (removed.min(7) as u64) << 4 | (foreign as u64) << 8);
        // observable at once: scrape what the closer had announced
        let ts: Vec<H20> = announced.keys().copied().collect();
        self.check_scrape_hashes(v6, &ts, stats, &["C08"], "close-removes-exactly-own", if foreign { "close-removed-foreign-entry" } else { "close-state" });
    }

    fn first_open_conn(&self, v6: bool) -> Option<usize> {
        self.conns.iter().position(|c| c.open && c.v6 == v6)
    }

    /// scrape `hashes` through some open connection of that family (or a temporary one)
    fn check_scrape_hashes(&mut self, v6: bool, hashes: &[H20], stats: &mut Stats, props: &[&str], check: &str, sig: &str) {
        if hashes.is_empty() || self.scn.max_scrape_torrents == 0 || !self.violations.is_empty() {
            return;
        }
        let tmp = self.first_open_conn(v6).is_none();
        if tmp {
            self.do_open(7, v6);
        }
        let c = self.first_open_conn(v6).unwrap();
        for chunk in hashes.chunks(self.scn.max_scrape_torrents.max(1)) {
            let meta = self.meta(c, true);
            let mut out = Vec::new();
            let req = ScrapeRequest { action: ScrapeAction::Scrape, info_hashes: Some(ScrapeRequestInfoHashes::Multiple(chunk.iter().map(|h| InfoHash(*h)).collect())) };
            let cfg = self.config.clone();
            let maps = &mut self.maps;
            if let Err(msg) = catch(|| maps.handle_scrape_request(&cfg, &mut out, meta, req)) {
                self.fail(&["C12", "C08"], "scrape-panic", "scrape-panic", format!("handle_scrape_request panicked: {}", msg));
                break;
            }
            stats.evaluations += 1;
            self.judge_scrape(c, v6, chunk, &out, props, check, sig);
            if !self.violations.is_empty() {
                break;
            }
        }
        if tmp {
            let c = self.conns.len() - 1;
            self.conns[c].open = false;
            let (w, id) = (self.conns[c].worker, self.conns[c].id);
            self.slotmaps[w as usize].remove(id);
        }
    }

    fn judge_scrape(&mut self, c: usize, v6: bool, requested: &[H20], out: &[(OutMessageMeta, OutMessage)], props: &[&str], check: &str, sig: &str) {
        if out.len() != 1 {
            self.fail(props, check, "scrape-reply-count", format!("scrape produced {} out-messages instead of 1", out.len()));
            return;
        }
        let (m, msg) = &out[0];
        if self.addressee(m) != Some(c) {
            self.fail(&["C08", "C17"], "reply-addressee", "scrape-addressee", "scrape reply addressed to another connection".into());
            return;
        }
        let files = match msg {
            OutMessage::ScrapeResponse(r) => &r.files,
            other => {
                self.fail(props, check, "scrape-reply-kind", format!("scrape answered with {:?}", other));
                return;
            }
        };
        let must: Vec<H20> = requested.iter().take(self.scn.max_scrape_torrents).copied().collect();
        for ih in &must {
            let (s, l) = self.model.counts(v6, ih);
            if s + l > 0 {
                match files.get(&InfoHash(*ih)) {
                    Some(st) if st.complete == s && st.incomplete == l => {}
                    Some(st) => {
                        self.fail(props, check, sig, format!("scrape t={}: complete/incomplete {}/{} but reference {}/{}", ih[0], st.complete, st.incomplete, s, l));
                        return;
                    }
                    None => {
                        self.fail(props, check, sig, format!("scrape t={}: torrent with {} stored peers is not listed", ih[0], s + l));
                        return;
                    }
                }
            }
        }
        let mut listed: Vec<_> = files.iter().collect();
        listed.sort_by_key(|(ih, _)| ih.0);
        for (ih, st) in listed {
            fold(&mut self.transcript, ih.0[0] as u64 | (st.complete as u64) << 8 | (st.incomplete as u64) << 24);
            let (s, l) = self.model.counts(v6, &ih.0);
            let in_must = must.contains(&ih.0);
            // entries beyond max_scrape_torrents are unconstrained; requested torrents must carry true counts
            let requested = requested.contains(&ih.0);
            if requested && !in_must && st.complete == s && st.incomplete == l {
                continue;
            }
            if !(in_must && s + l > 0) && (st.complete != 0 || st.incomplete != 0) {
                self.fail(props, check, sig, format!("scrape lists t={} with non-zero counts {}/{} although it {}", ih.0[0], st.complete, st.incomplete, if in_must { "has no stored peers" } else { "was not among the first max_scrape_torrents requested" }));
                return;
            }
        }
    }

    #[allow(clippy::too_many_arguments)]
    fn do_announce(&mut self, c: usize, t: u8, pid: u8, ev: Option<u8>, left: Option<u64>, offers: &[u8], answer: Option<(u8, u8)>, ansp: Option<(u8, bool)>, stats: &mut Stats) {
        if c >= self.conns.len() || !self.conns[c].open {
            return;
        }
        // resolve "answer the k-th received offer"
        let (t, answer) = match ansp {
            Some((k, same_t)) if !self.conns[c].inbox.is_empty() => {
                let (ot, from, oid) = self.conns[c].inbox[k as usize % self.conns[c].inbox.len()];
                (if same_t { ot } else { t }, Some((from, oid)))
            }
            _ => (t, answer),
        };
        let ih = info_hash(t);
        let me = peer_id(pid);
        let v6 = self.conns[c].v6;
        // ---- what ConnectionReader does before forwarding to the swarm worker
        if !self.allowed(&ih) {
            return;
        }
        match self.conns[c].announced.get(&ih) {
            Some(p) if *p != me => {
                // "Only one peer id can be used per torrent": error reply, connection ends
                stats.probe("second-peer-id-closes-connection");
                self.do_close(c, stats);
                return;
            }
            Some(_) => {}
            None => {
                self.conns[c].announced.insert(ih, me);
            }
        }
        let event = ev.map(|e| match e % 4 {
            0 => AnnounceEvent::Started,
            1 => AnnounceEvent::Completed,
            2 => AnnounceEvent::Update,
            _ => AnnounceEvent::Stopped,
        });
        let stopped = matches!(event, Some(AnnounceEvent::Stopped));
        if stopped {
            self.conns[c].announced.remove(&ih);
        }
        // ---- the request
        let req_offers: Vec<AnnounceRequestOffer> = offers
            .iter()
            .enumerate()
            .map(|(i, o)| AnnounceRequestOffer { offer: RtcOffer { t: RtcOfferType::Offer, sdp: format!("sdp-{}-{}-{}", c, self.transcript & 0xffff, i) }, offer_id: OfferId(offer_id(*o)) })
            .collect();
        let ans_sdp = format!("answer-{}-{}", c, self.transcript & 0xffff);
        let req = AnnounceRequest {
            action: AnnounceAction::Announce,
            info_hash: InfoHash(ih),
            peer_id: PeerId(me),
            bytes_left: left.map(|l| l as usize),
            event,
            offers: if offers.is_empty() && self.transcript % 3 == 0 { None } else { Some(req_offers.clone()) },
            numwant: Some(offers.len()),
            answer: answer.map(|_| RtcAnswer { t: RtcAnswerType::Answer, sdp: ans_sdp.clone() }),
            answer_to_peer_id: answer.map(|(p, _)| PeerId(peer_id(p))),
            answer_offer_id: answer.map(|(_, o)| OfferId(offer_id(o))),
        };
        let meta = self.meta(c, false);
        let mut out: Vec<(OutMessageMeta, OutMessage)> = Vec::new();
        let cfg = self.config.clone();
        let start = self.start;
        let maps = &mut self.maps;
        let rng = &mut self.rng;
        let r = catch(|| maps.handle_announce_request(&cfg, rng, &mut out, start, meta, req));
        if let Err(msg) = r {
            self.fail(&["C12", "C08", "C09", "C10"], "announce-panic", if msg.contains("overflow") { "valid-until-overflow" } else { "announce-panic" }, format!("handle_announce_request panicked: {}", msg));
            return;
        }
        stats.evaluations += 1;
        let now = self.now_secs();
        // ---- ownership rule
        if let Some(e) = self.model.get(v6, &ih, &me) {
            if e.owner != c {
                let same_conn_id = self.conns[e.owner].id == self.conns[c].id;
                stats.probe(if same_conn_id { "foreign-announce-coinciding-connection-id" } else { "foreign-announce" });
                if !out.is_empty() {
                    self.fail(
                        &["C08"],
                        "ownership-foreign-announce-ignored",
                        if same_conn_id { "coinciding-connection-id" } else { "foreign-announce-answered" },
                        format!("connection #{} (worker {}) announced peer id {} on t={} which connection #{} (worker {}) created; it must be ignored without reply, but {} out-message(s) were produced", c, self.conns[c].worker, pid, t, e.owner, self.conns[e.owner].worker, out.len()),
                    );
                    return;
                }
                fold(&mut self.sig, 5 | (same_conn_id as u64) << 4);
                // no effect on the entry: checked by the scrape below
                self.check_scrape_hashes(v6, &[ih], stats, &["C08"], "ownership-foreign-announce-ignored", if same_conn_id { "coinciding-connection-id" } else { "foreign-announce-changed-state" });
                return;
            }
        }
        // ---- model update
        let seeder = left == Some(0);
        let deadline = now + self.scn.max_peer_age as u64;
        let existed = self.model.get(v6, &ih, &me).is_some();
        if stopped {
            if self.model.remove(v6, &ih, &me).is_some() {
                self.saw_removal = true;
            }
        } else if existed {
            let e = self.model.get_mut(v6, &ih, &me).unwrap();
            if e.seeder != seeder {
                stats.probe("seeder-status-flip");
            }
            e.seeder = seeder;
            e.deadline = deadline;
        } else {
            self.model.torrents.entry((v6, ih)).or_default().push((me, MEntry { owner: c, seeder, deadline, expecting: BTreeMap::new() }));
        }
        // ---- judge the out-messages
        let mut n_reply = 0;
        let mut forwarded_offers: Vec<(usize, &aquatic_ws_protocol::outgoing::OfferOutMessage)> = Vec::new();
        let mut answers: Vec<(usize, &aquatic_ws_protocol::outgoing::AnswerOutMessage)> = Vec::new();
        let mut errors = 0;
        for (m, msg) in &out {
            let to = match self.addressee(m) {
                Some(x) => x,
                None => {
                    self.fail(&["C09", "C17"], "addressee-exists", "addressee-unknown", format!("out-message {:?} addressed to a connection that does not exist", msg));
                    return;
                }
            };
            match msg {
                OutMessage::AnnounceResponse(r) => {
                    n_reply += 1;
                    if to != c {
                        self.fail(&["C08", "C17"], "reply-addressee", "announce-addressee", "announce reply addressed to another connection".into());
                        return;
                    }
                    let (s, l) = self.model.counts(v6, &ih);
                    fold(&mut self.transcript, r.complete as u64 | (r.incomplete as u64) << 20);
                    if r.complete != s || r.incomplete != l || r.info_hash.0 != ih {
                        self.fail(&["C08"], "announce-counts", "announce-counts", format!("announce t={} pid={} on connection #{}: reply complete/incomplete {}/{} but reference {}/{} (including the announcer)", t, pid, c, r.complete, r.incomplete, s, l));
                        return;
                    }
                }
                OutMessage::OfferOutMessage(o) => forwarded_offers.push((to, o)),
                OutMessage::AnswerOutMessage(a) => answers.push((to, a)),
                OutMessage::ErrorResponse(_) => {
                    errors += 1;
                    if to != c {
                        self.fail(&["C09"], "error-to-answerer-only", "error-addressee", "error reply addressed to a connection other than the sender".into());
                        return;
                    }
                }
                OutMessage::ScrapeResponse(_) => {
                    self.fail(&["C08"], "reply-kind", "reply-kind", "announce produced a scrape response".into());
                    return;
                }
            }
        }
        if n_reply != 1 {
            self.fail(&["C08", "C17"], "one-announce-reply", "one-announce-reply", format!("announce not ignored under the ownership rule produced {} announce replies", n_reply));
            return;
        }
        // offers
        let others: Vec<H20> = self.model.torrents.get(&(v6, ih)).map(|l| l.iter().filter(|(p, _)| *p != me).map(|(p, _)| *p).collect()).unwrap_or_default();
        let expect_n = if stopped { 0 } else { offers.len().min(self.scn.max_offers).min(others.len()) };
        if forwarded_offers.len() != expect_n {
            let props: &[&str] = &["C09", "C02"];
            self.fail(props, "offers-forwarded-count", "offers-forwarded-count", format!("announce with {} offers (max_offers {}, {} other stored peers, stopped={}): {} offers forwarded, expected {}", offers.len(), self.scn.max_offers, others.len(), stopped, forwarded_offers.len(), expect_n));
            return;
        }
        let mut receivers: BTreeSet<H20> = BTreeSet::new();
        let mut used: BTreeSet<usize> = BTreeSet::new();
        for (to, o) in &forwarded_offers {
            // receiver = the stored peer owned by connection `to` in this torrent
            let recv: Vec<H20> = self.model.torrents.get(&(v6, ih)).map(|l| l.iter().filter(|(p, e)| e.owner == *to && *p != me).map(|(p, _)| *p).collect()).unwrap_or_default();
            if self.conns[*to].v6 != v6 {
                self.fail(&["C09", "C02"], "offer-receiver-stored-member", "offer-other-family", "offer forwarded to a connection of the other address family".into());
                return;
            }
            if recv.is_empty() {
                self.fail(&["C09", "C02"], "offer-receiver-stored-member", "offer-receiver-not-stored", format!("offer forwarded to connection #{} which owns no other stored peer of t={} in this family", to, t));
                return;
            }
            // one connection owns at most one peer id per torrent
            let rp = recv[0];
            if !receivers.insert(rp) {
                self.fail(&["C09", "C02"], "offer-receivers-distinct", "offer-receivers-distinct", "two offers of one announce were forwarded to the same peer".into());
                return;
            }
            if o.peer_id.0 != me || o.info_hash.0 != ih {
                self.fail(&["C09"], "offer-tagged-with-sender", "offer-tag", "forwarded offer not tagged with the sender's peer id / info hash".into());
                return;
            }
            // it must be one of the request's offers, each used once
            match req_offers.iter().enumerate().find(|(i, ro)| !used.contains(i) && ro.offer_id == o.offer_id && ro.offer == o.offer) {
                Some((i, _)) => {
                    used.insert(i);
                }
                None => {
                    self.fail(&["C09"], "offer-is-from-request", "offer-content", "forwarded offer does not match an unused offer of the request".into());
                    return;
                }
            }
            let dl = now + self.scn.max_offer_age as u64;
            if let Some(e) = self.model.get_mut(v6, &ih, &me) {
                e.expecting.insert((rp, o.offer_id.0), dl);
            }
            self.saw_relay = true;
            self.conns[*to].inbox.push((t, pid, o.offer_id.0[19]));
            stats.probe("offer-forwarded");
            if self.conns[*to].worker != self.conns[c].worker {
                stats.probe("offer-forwarded-across-socket-workers");
            }
        }
        // answer
        let mut expect_answer: Option<(usize, H20)> = None;
        if let (false, Some((to_p, oid))) = (stopped, answer) {
            let to_pid = peer_id(to_p);
            if let Some(e) = self.model.get_mut(v6, &ih, &to_pid) {
                if e.expecting.remove(&(me, offer_id(oid))).is_some() {
                    expect_answer = Some((e.owner, to_pid));
                } else {
                    stats.probe("answer-without-live-offer");
                }
            } else {
                stats.probe("answer-to-absent-peer");
            }
        }
        match (expect_answer, answers.len()) {
            (Some((owner, _)), 1) => {
                let (to, a) = answers[0];
                if to != owner {
                    self.fail(&["C09", "C17"], "answer-to-offerer-connection", "answer-addressee", format!("answer forwarded to connection #{} but the offering peer lives on connection #{}", to, owner));
                    return;
                }
                if a.peer_id.0 != me || a.info_hash.0 != ih || a.offer_id.0 != offer_id(answer.unwrap().1) || a.answer.sdp != ans_sdp {
                    self.fail(&["C09"], "answer-content", "answer-content", "forwarded answer does not carry the answerer's peer id / offer id / sdp".into());
                    return;
                }
                self.saw_relay = true;
                stats.probe("answer-forwarded");
            }
            (Some(_), n) => {
                self.fail(&["C09"], "answer-forwarded-when-live", "answer-not-forwarded", format!("a live, unanswered offer was answered but {} answer messages were forwarded", n));
                return;
            }
            (None, 0) => {}
            (None, n) => {
                let sig = if answer.map_or(false, |(p, _)| self.model.get(v6, &ih, &peer_id(p)).is_some()) { "answer-forwarded-without-live-offer" } else { "answer-forwarded-to-absent-peer" };
                self.fail(&["C09"], "answer-only-along-live-offer", sig, format!("{} answer message(s) forwarded although no live offer with that id from that peer to the answerer exists", n));
                return;
            }
        }
        let _ = errors;
        fold(&mut self.sig, 1 | (ev.unwrap_or(7) as u64 % 8) << 4 | (existed as u64) << 8 | (seeder as u64) << 9 | (forwarded_offers.len().min(7) as u64) << 12 | (expect_answer.is_some() as u64) << 16 | (answer.is_some() as u64) << 17);
    }

    fn do_scrape(&mut self, c: usize, ts: &Option<Vec<u8>>, single: bool, stats: &mut Stats) {
        if c >= self.conns.len() || !self.conns[c].open {
            return;
        }
        let v6 = self.conns[c].v6;
        let hashes: Option<Vec<H20>> = ts.as_ref().map(|v| v.iter().map(|t| info_hash(*t)).collect());
        let req = ScrapeRequest {
            action: ScrapeAction::Scrape,
            info_hashes: hashes.as_ref().map(|h| if single && h.len() == 1 { ScrapeRequestInfoHashes::Single(InfoHash(h[0])) } else { ScrapeRequestInfoHashes::Multiple(h.iter().map(|x| InfoHash(*x)).collect()) }),
        };
        let meta = self.meta(c, true);
        let mut out = Vec::new();
        let cfg = self.config.clone();
        let maps = &mut self.maps;
        if let Err(msg) = catch(|| maps.handle_scrape_request(&cfg, &mut out, meta, req)) {
            self.fail(&["C12", "C08"], "scrape-panic", "scrape-panic", format!("handle_scrape_request panicked: {}", msg));
            return;
        }
        stats.evaluations += 1;
        match hashes {
            None => {
                if !out.is_empty() {
                    self.fail(&["C08"], "scrape-without-hashes", "scrape-without-hashes", "a scrape without info hashes produced a reply from the swarm worker".into());
                }
            }
            Some(h) => {
                if h.len() > self.scn.max_scrape_torrents {
                    stats.probe("scrape-longer-than-limit");
                }
                self.judge_scrape(c, v6, &h, &out, &["C08"], "scrape-counts", "scrape-counts");
            }
        }
        fold(&mut self.sig, 2);
    }

    fn all_hashes(&self) -> Vec<H20> {
        let mut ts: Vec<u8> = self.scn.ops.iter().filter_map(|o| if let Op::Ann { t, .. } = o { Some(*t) } else { None }).collect();
        ts.sort();
        ts.dedup();
        ts.into_iter().map(info_hash).collect()
    }

    fn do_clean(&mut self, stats: &mut Stats) {
        let hs = self.all_hashes();
        self.check_scrape_hashes(false, &hs, stats, &["C08"], "scrape-counts", "scrape-counts");
        self.check_scrape_hashes(true, &hs, stats, &["C08"], "scrape-counts", "scrape-counts");
        if !self.violations.is_empty() {
            return;
        }
        let now = self.now_secs();
        let cfg = self.config.clone();
        let al = self.access.clone();
        let start = self.start;
        let maps = &mut self.maps;
        if let Err(msg) = catch(|| maps.clean(&cfg, &al, start)) {
            self.fail(&["C12", "C08", "C10"], "clean-panic", "clean-panic", format!("clean panicked: {}", msg));
            return;
        }
        stats.evaluations += 1;
        let mut at_deadline = false;
        let mut offer_at_deadline = false;
        let mut removed = 0;
        let keys: Vec<(bool, H20)> = self.model.torrents.keys().copied().collect();
        for k in keys {
            if !self.allowed(&k.1) {
                removed += self.model.torrents.remove(&k).map_or(0, |l| l.len());
                continue;
            }
            let l = self.model.torrents.get_mut(&k).unwrap();
            for (_, e) in l.iter_mut() {
                if e.deadline == now {
                    at_deadline = true;
                }
                if e.expecting.values().any(|d| *d == now) {
                    offer_at_deadline = true;
                }
                let before = e.expecting.len();
                e.expecting.retain(|_, d| *d > now);
                if e.expecting.len() < before {
                    stats.probe("offer-expired-by-clean");
                }
            }
            let before = l.len();
            l.retain(|(_, e)| e.deadline > now);
            removed += before - l.len();
            if l.is_empty() {
                self.model.torrents.remove(&k);
            }
        }
        if at_deadline {
            stats.probe("clean-exactly-at-deadline");
        }
        if offer_at_deadline {
            stats.probe("clean-exactly-at-offer-deadline");
        }
        if removed > 0 {
            self.saw_removal = true;
            stats.probe("clean-removed-something");
        }
        fold(&mut self.sig, 3 | (removed.min(7) as u64) << 4 | (at_deadline as u64) << 8 | (offer_at_deadline as u64) << 9);
        let (t4, t6) = self.maps.verif_num_torrents();
        let m4 = self.model.torrents.keys().filter(|k| !k.0).count();
        let m6 = self.model.torrents.keys().filter(|k| k.0).count();
        if t4 != m4 || t6 != m6 {
            self.fail(&["C08", "C10"], "torrent-dropped-when-empty", "torrent-count", format!("after clean at {} s the storage holds {}/{} (v4/v6) torrent entries but {} / {} torrents have peers and are permitted", now, t4, t6, m4, m6));
            return;
        }
        self.check_scrape_hashes(false, &hs, stats, &["C10", "C08"], "state-after-clean", "state-after-clean");
        self.check_scrape_hashes(true, &hs, stats, &["C10", "C08"], "state-after-clean", "state-after-clean");
    }
}

impl Harness for WsStore {
    type Scn = Scn;
    const NAME: &'static str = "ws_store";

    fn generate(seed: u64, tier: Tier, prop: &str) -> Scn {
        let mut r = Prng::stream(seed, "scenario");
        let max_offers = *r.pick(&[0usize, 1, 2, 3, 5, 10, 12]);
        let max_scrape_torrents = *r.pick(&[1usize, 2, 3, 255]);
        let max_peer_age = if prop == "C10" && r.chance(30) { u32::MAX } else { *r.pick(&[2u32, 3, 5, 30, 180]) };
        let max_offer_age = *r.pick(&[1u32, 2, 4, 20, 120]);
        let access_mode = if r.chance(200) { r.range(1, 2) as u8 } else { 0 };
        let access_list: Vec<u8> = (0..r.below(4)).map(|_| r.below(5) as u8).collect();
        let n_ops = match tier {
            Tier::Quick => r.range(15, 90),
            Tier::Thorough => r.range(15, 300),
        } as usize;
        let n_workers = r.range(1, 3) as u8;
        let n_torrents = r.range(1, 4) as u8;
        let n_pids = r.range(2, 8) as u8;
        let mut ops = Vec::new();
        let mut n_conns: u8 = 0;
        let mut now = 0u64;
        let mut deadlines: Vec<u64> = Vec::new();
        // a few connections up front: first connection of each worker coincides in id
        for w in 0..n_workers {
            ops.push(Op::Open { w, v6: r.chance(250) });
            n_conns += 1;
        }
        if prop == "C02" || r.chance(100) {
            // a bigger swarm so that offers exceed / fall short of the number of peers
            let extra = r.range(3, 20) as u8;
            for i in 0..extra {
                ops.push(Op::Open { w: i % n_workers, v6: false });
                ops.push(Op::Ann { c: n_conns, t: 0, pid: n_conns, ev: Some(0), left: Some(1), offers: vec![], answer: None, ansp: None });
                n_conns += 1;
            }
        }
        while ops.len() < n_ops {
            match r.weighted(&[8, 55, 10, 7, 8, 12]) {
                0 => {
                    if n_conns < 40 {
                        ops.push(Op::Open { w: r.below(n_workers as u64) as u8, v6: r.chance(250) });
                        n_conns += 1;
                    }
                }
                1 => {
                    let c = r.below(n_conns as u64) as u8;
                    let n_off = match r.below(10) {
                        0..=3 => 0,
                        4 | 5 => 1,
                        6 => 2,
                        7 => r.range(3, 6),
                        8 => r.range(7, 15),
                        _ => max_offers as u64 + 1,
                    } as usize;
                    let offers: Vec<u8> = (0..n_off).map(|_| r.below(6) as u8).collect();
                    let answer = if r.chance(150) { Some((r.below(n_conns as u64) as u8, r.below(6) as u8)) } else { None };
                    let ansp = if r.chance(350) { Some((r.below(8) as u8, r.chance(850))) } else { None };
                    let ev = match r.below(10) {
                        0 | 1 => None,
                        2 | 3 => Some(3),
                        _ => Some(r.below(3) as u8),
                    };
                    let left = match r.below(6) {
                        0 => None,
                        1 | 2 => Some(0),
                        _ => Some(r.range(1, 100)),
                    };
                    // connections tend to stick to one peer id (c mod pids) but sometimes use another's
                    let pid = if r.chance(940) { c } else { r.below(n_conns as u64) as u8 };
                    ops.push(Op::Ann { c, t: r.below(n_torrents as u64) as u8, pid, ev, left, offers, answer, ansp });
                    deadlines.push(now + max_peer_age as u64);
                    deadlines.push(now + max_offer_age as u64);
                }
                2 => {
                    let c = r.below(n_conns as u64) as u8;
                    let ts = if r.chance(100) { None } else { Some((0..r.range(0, 5)).map(|_| r.below(n_torrents as u64 + 1) as u8).collect()) };
                    ops.push(Op::Scr { c, ts, single: r.chance(300) });
                }
                3 => ops.push(Op::Close { c: r.below(n_conns as u64) as u8 }),
                4 => ops.push(Op::Clean),
                _ => {
                    deadlines.retain(|d| *d + 1 > now);
                    if !deadlines.is_empty() && r.chance(600) {
                        let d = *r.pick(&deadlines);
                        let target = match r.below(3) {
                            0 => d.saturating_sub(1),
                            1 => d,
                            _ => d + 1,
                        };
                        if target > now {
                            ops.push(Op::Adv { secs: target - now });
                            now = target;
                        }
                        ops.push(Op::Clean);
                    } else {
                        let secs = r.range(1, 6);
                        ops.push(Op::Adv { secs });
                        now += secs;
                    }
                }
            }
        }
        Scn { max_offers, max_scrape_torrents, max_peer_age, max_offer_age, rng_seed: r.next_u64(), access_mode, access_list, ops }
    }

    fn execute(scn: &Scn, _prop: &str, stats: &mut Stats) -> Outcome {
        time::set_manual_secs(0);
        foldhash::verif_reset_seed_counter();
        let mut config = Config::default();
        config.protocol.max_offers = scn.max_offers;
        config.protocol.max_scrape_torrents = scn.max_scrape_torrents;
        config.cleaning.max_peer_age = scn.max_peer_age;
        config.cleaning.max_offer_age = scn.max_offer_age;
        config.access_list.mode = match scn.access_mode {
            1 => AccessListMode::Allow,
            2 => AccessListMode::Deny,
            _ => AccessListMode::Off,
        };
        let mut list = AccessList::default();
        for t in &scn.access_list {
            let hex: String = info_hash(*t).iter().map(|b| format!("{:02x}", b)).collect();
            list.insert_from_line(&hex).unwrap();
        }
        let access: Arc<AccessListArcSwap> = Arc::new(arc_swap::ArcSwap::from_pointee(list));
        let mut ex = Exec {
            scn,
            config,
            maps: TorrentMaps::new(0),
            start: ServerStartInstant::new(),
            access,
            rng: SmallRng::seed_from_u64(scn.rng_seed),
            model: Model::default(),
            slotmaps: Vec::new(),
            conns: Vec::new(),
            violations: Vec::new(),
            transcript: 0,
            sig: 0,
            saw_removal: false,
            saw_relay: false,
        };
        for op in &scn.ops {
            if !ex.violations.is_empty() {
                break;
            }
            match op {
                Op::Open { w, v6 } => ex.do_open(*w, *v6),
                Op::Ann { c, t, pid, ev, left, offers, answer, ansp } => ex.do_announce(*c as usize, *t, *pid, *ev, *left, offers, *answer, *ansp, stats),
                Op::Scr { c, ts, single } => ex.do_scrape(*c as usize, ts, *single, stats),
                Op::Close { c } => ex.do_close(*c as usize, stats),
                Op::Clean => ex.do_clean(stats),
                Op::Adv { secs } => {
                    let n = time::manual_ns() / 1_000_000_000 + secs;
                    time::set_manual_secs(n.min(u32::MAX as u64 - 10));
                }
            }
            stats.states.insert(ex.model.state_hash());
        }
        if ex.violations.is_empty() {
            let hs = ex.all_hashes();
            ex.check_scrape_hashes(false, &hs, stats, &["C08"], "final-scrape", "final-scrape");
            ex.check_scrape_hashes(true, &hs, stats, &["C08"], "final-scrape", "final-scrape");
        }
        stats.sim_seconds += time::manual_ns() / 1_000_000_000;
        let nontrivial = ex.saw_removal && ex.saw_relay;
        Outcome { violations: ex.violations, fingerprint: ex.transcript, signature: if nontrivial { Some(ex.sig) } else { None } }
    }

    fn size(scn: &Scn) -> usize {
        scn.ops.len()
    }

    fn shrink(scn: &Scn) -> Vec<Scn> {
        let mut out = Vec::new();
        // removing an Open shifts connection indices: only remove non-Open ops in chunks,
        // and Opens that no later op refers to
        let removable: Vec<usize> = scn.ops.iter().enumerate().filter(|(_, o)| !matches!(o, Op::Open { .. })).map(|(i, _)| i).collect();
        for (a, b) in chunk_removals(removable.len()) {
            let drop: BTreeSet<usize> = removable[a..b].iter().copied().collect();
            let mut s = scn.clone();
            s.ops = scn.ops.iter().enumerate().filter(|(i, _)| !drop.contains(i)).map(|(_, o)| o.clone()).collect();
            out.push(s);
        }
        // drop the last Open if unused
        let n_open = scn.ops.iter().filter(|o| matches!(o, Op::Open { .. })).count();
        if n_open > 0 {
            let last = (n_open - 1) as u8;
            let used = scn.ops.iter().any(|o| match o {
                Op::Ann { c, .. } | Op::Scr { c, .. } | Op::Close { c } => *c >= last,
                _ => false,
            });
            if !used {
                let idx = scn.ops.iter().rposition(|o| matches!(o, Op::Open { .. })).unwrap();
                let mut s = scn.clone();
                s.ops.remove(idx);
                out.push(s);
            }
        }
        if scn.access_mode != 0 {
            let mut s = scn.clone();
            s.access_mode = 0;
            out.push(s);
        }
        for (i, op) in scn.ops.iter().enumerate() {
            match op {
                Op::Ann { c, t, pid, ev, left, offers, answer, ansp } => {
                    if !offers.is_empty() {
                        let mut s = scn.clone();
                        s.ops[i] = Op::Ann { c: *c, t: *t, pid: *pid, ev: *ev, left: *left, offers: offers[..offers.len() - 1].to_vec(), answer: *answer, ansp: *ansp };
                        out.push(s);
                    }
                    if answer.is_some() || ansp.is_some() {
                        let mut s = scn.clone();
                        s.ops[i] = Op::Ann { c: *c, t: *t, pid: *pid, ev: *ev, left: *left, offers: offers.clone(), answer: None, ansp: None };
                        out.push(s);
                    }
                }
                Op::Adv { secs } if *secs > 1 => {
                    let mut s = scn.clone();
                    s.ops[i] = Op::Adv { secs: secs - 1 };
                    out.push(s);
                }
                Op::Open { w, v6 } if *v6 || *w > 0 => {
                    if *v6 {
                        let mut s = scn.clone();
                        s.ops[i] = Op::Open { w: *w, v6: false };
                        out.push(s);
                    }
                }
                _ => {}
            }
        }
        out
    }
}
