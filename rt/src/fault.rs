//! Process-level fault plan: worker deaths (panic at the n-th seam call of a named thread),
//! set-up failures, stalls. The plan is data from the scenario; nothing here draws randomness.
use std::cell::{Cell, RefCell};
use std::collections::BTreeMap;
use std::sync::atomic::{AtomicBool, Ordering};
use std::sync::Mutex;

#[derive(Clone, Debug, Default)]
pub struct Plan {
    /// (thread name, n): panic at the n-th seam call (1-based) made by that thread
    pub panic_at: Vec<(String, u64)>,
    /// (thread name, simulated ns): panic at the first seam call at or after that time
    pub panic_at_time: Vec<(String, u64)>,
    /// (thread name, n, ns): stall for ns of simulated time at the n-th seam call
    pub stall_at: Vec<(String, u64, u64)>,
    /// thread names whose spawn fails
    pub fail_spawn: Vec<String>,
    /// thread names whose socket set-up (bind) fails
    pub fail_bind: Vec<String>,
    /// thread names whose listener / poller ends (returns an error) at the n-th seam call
    pub end_loop_at: Vec<(String, u64)>,
    pub signals_new_fails: bool,
}

static ENABLED: AtomicBool = AtomicBool::new(false);
static PLAN: Mutex<Option<Plan>> = Mutex::new(None);
static FIRED: Mutex<BTreeMap<&'static str, u64>> = Mutex::new(BTreeMap::new());
static FIRED_AT: Mutex<Vec<(String, &'static str, u64)>> = Mutex::new(Vec::new());

thread_local! {
    static COUNT: Cell<u64> = const { Cell::new(0) };
    static NAME: RefCell<Option<String>> = const { RefCell::new(None) };
}

pub fn set_plan(p: Plan) {
    let empty = p.panic_at.is_empty()
        && p.panic_at_time.is_empty()
        && p.stall_at.is_empty()
        && p.fail_spawn.is_empty()
        && p.fail_bind.is_empty()
        && p.end_loop_at.is_empty()
        && !p.signals_new_fails;
    *PLAN.lock().unwrap() = Some(p);
    ENABLED.store(!empty, Ordering::SeqCst);
    FIRED.lock().unwrap().clear();
    FIRED_AT.lock().unwrap().clear();
}

pub fn clear() {
    *PLAN.lock().unwrap() = None;
    ENABLED.store(false, Ordering::SeqCst);
    FIRED.lock().unwrap().clear();
    FIRED_AT.lock().unwrap().clear();
}

pub fn note_fired(kind: &'static str) {
    *FIRED.lock().unwrap().entry(kind).or_insert(0) += 1;
}

pub fn fired() -> BTreeMap<&'static str, u64> {
    FIRED.lock().unwrap().clone()
}

/// (thread, kind, simulated time) of every process fault that fired
pub fn fired_at() -> Vec<(String, &'static str, u64)> {
    FIRED_AT.lock().unwrap().clone()
}

fn my_name() -> String {
    NAME.with(|n| {
        let mut n = n.borrow_mut();
        if n.is_none() {
            *n = Some(crate::engine::my_name());
        }
        n.clone().unwrap()
    })
}

/// Number of seam calls the calling thread has made (probe for choosing fault ordinals).
pub fn my_seam_calls() -> u64 {
    COUNT.with(|c| c.get())
}

/// Called by every seam entry point. May panic (injected worker death) or stall.
pub fn seam_point(_kind: &'static str) {
    crate::alloc::close_window();
    if !crate::engine::active() {
        return;
    }
    let n = COUNT.with(|c| {
        c.set(c.get() + 1);
        c.get()
    });
    if !ENABLED.load(Ordering::Relaxed) || std::thread::panicking() {
        return;
    }
    let name = my_name();
    let mut do_panic = false;
    let mut stall = None;
    {
        let mut g = PLAN.lock().unwrap();
        if let Some(p) = g.as_mut() {
            if let Some(i) = p.panic_at.iter().position(|(t, k)| *t == name && *k == n) {
                p.panic_at.remove(i);
                do_panic = true;
            }
            if !do_panic && !p.panic_at_time.is_empty() {
                let now = crate::engine::now();
                if let Some(i) = p.panic_at_time.iter().position(|(t, at)| *t == name && now >= *at) {
                    p.panic_at_time.remove(i);
                    do_panic = true;
                }
            }
            if let Some(i) = p.stall_at.iter().position(|(t, k, _)| *t == name && *k == n) {
                stall = Some(p.stall_at.remove(i).2);
            }
        }
    }
    if let Some(ns) = stall {
        note_fired("stall");
        crate::engine::log("inject-stall", ns, 0);
        crate::engine::sleep_ns(ns);
    }
    if do_panic {
        note_fired("panic");
        let now = crate::engine::now();
        FIRED_AT.lock().unwrap().push((name.clone(), "panic", now));
        crate::engine::log("inject-panic", n, 0);
        panic!("injected worker death in {} at seam call {}", name, n);
    }
}

/// Should the calling thread's loop end now (listener closed / poll error)?
pub fn end_loop_now() -> bool {
    if !ENABLED.load(Ordering::Relaxed) || !crate::engine::active() {
        return false;
    }
    let n = COUNT.with(|c| c.get());
    let name = my_name();
    let mut g = PLAN.lock().unwrap();
    if let Some(p) = g.as_mut() {
        if let Some(i) = p.end_loop_at.iter().position(|(t, k)| *t == name && n >= *k) {
            p.end_loop_at.remove(i);
            drop(g);
            note_fired("end-loop");
            let now = crate::engine::now();
            FIRED_AT.lock().unwrap().push((name, "end-loop", now));
            crate::engine::log("inject-end-loop", n, 0);
            return true;
        }
    }
    false
}

pub fn on_spawn(name: &str) -> Option<std::io::Error> {
    if !ENABLED.load(Ordering::Relaxed) {
        return None;
    }
    let g = PLAN.lock().unwrap();
    if g.as_ref().map_or(false, |p| p.fail_spawn.iter().any(|t| t == name)) {
        drop(g);
        note_fired("spawn-fail");
        return Some(std::io::Error::new(std::io::ErrorKind::WouldBlock, "injected: spawn failed (EAGAIN)"));
    }
    None
}

pub fn on_bind() -> Option<std::io::Error> {
    if !ENABLED.load(Ordering::Relaxed) || !crate::engine::active() {
        return None;
    }
    let name = my_name();
    let mut g = PLAN.lock().unwrap();
    if let Some(p) = g.as_mut() {
        if let Some(i) = p.fail_bind.iter().position(|t| *t == name) {
            p.fail_bind.remove(i);
            drop(g);
            note_fired("bind-fail");
            let now = crate::engine::now();
            FIRED_AT.lock().unwrap().push((name, "bind-fail", now));
            return Some(std::io::Error::new(std::io::ErrorKind::AddrInUse, "injected: bind failed (EADDRINUSE)"));
        }
    }
    None
}

pub fn on_signals_new() -> Option<std::io::Error> {
    if !ENABLED.load(Ordering::Relaxed) {
        return None;
    }
    let g = PLAN.lock().unwrap();
    if g.as_ref().map_or(false, |p| p.signals_new_fails) {
        drop(g);
        note_fired("signals-new-fail");
        return Some(std::io::Error::new(std::io::ErrorKind::Other, "injected: signal registration failed"));
    }
    None
}
