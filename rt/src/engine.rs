//! The discrete-event engine: simulated threads are real OS threads that run strictly one at
//! a time. Every blocking point of the system under test is a call into this module; the
//! choice of who runs next is drawn from the run's scheduler PRNG, and simulated time only
//! advances when every thread is blocked ("infinitely fast CPU").
//!
//! One run = `engine::run(cfg, root)`. The engine state is a process-wide singleton that is
//! re-initialised for every run, so many runs can share a process.

use std::sync::{Arc, Condvar, Mutex, MutexGuard};
use std::time::Duration;

pub type Tid = usize;

/// Unwind payload used to tear simulated threads down at the end of a run.
pub struct Shutdown;

#[derive(Clone, Copy, Debug, PartialEq)]
pub enum Strategy {
    /// uniform choice among runnable threads at every scheduling point
    Random,
    /// stay on the current thread with probability p/1000, else uniform
    Sticky(u32),
    /// PCT-like: random priorities, `depth` priority change points within `horizon` steps
    Pct { depth: u32, horizon: u64 },
}

#[derive(Clone, Debug)]
pub struct EngineCfg {
    pub sched_seed: u64,
    pub strategy: Strategy,
    pub max_handoffs: u64,
    pub trace: bool,
    /// probability (per mille) that `maybe_yield` really yields
    pub yield_permille: u32,
    /// record every clock read as (seq, tid, now)
    pub record_clock: bool,
    /// wall-clock limit for the whole run (harness error when exceeded)
    pub wall_limit_s: u64,
    /// keep every logged event (seq, time, thread, kind, a, b) for offline oracles
    pub record_events: bool,
}

impl Default for EngineCfg {
    fn default() -> Self {
        EngineCfg {
            sched_seed: 1,
            strategy: Strategy::Random,
            max_handoffs: 2_000_000,
            trace: false,
            yield_permille: 300,
            record_clock: false,
            wall_limit_s: 60,
            record_events: false,
        }
    }
}

#[derive(Clone, Debug, Default)]
pub struct Report {
    pub now_ns: u64,
    pub seq: u64,
    pub log_hash: u64,
    pub sig_hash: u64,
    pub handoffs: u64,
    pub threads: usize,
    pub deadlock: Option<Vec<(String, &'static str)>>,
    pub overrun: bool,
    /// (thread name, message) of every simulated thread that panicked (not via Shutdown)
    pub panics: Vec<(String, String)>,
    pub clock_reads: Vec<(u64, Tid, u64)>,
    pub thread_names: Vec<String>,
    pub events: Vec<Ev>,
}

#[derive(Clone, Debug)]
pub struct Ev {
    pub seq: u64,
    pub now: u64,
    pub tid: Tid,
    pub kind: &'static str,
    pub a: u64,
    pub b: u64,
}

#[derive(Clone, Copy, PartialEq, Debug)]
enum St {
    Runnable,
    Blocked,
    Finished,
}

struct Th {
    st: St,
    name: String,
    cv: Arc<Condvar>,
    wake_at: Option<u64>,
    timed_out: bool,
    reason: &'static str,
    prio: u64,
    panicked: bool,
    joiners: Vec<Tid>,
}

struct Inner {
    running: bool,
    generation: u64,
    now: u64,
    threads: Vec<Th>,
    current: Tid,
    rng: u64,
    strategy: Strategy,
    change_points: Vec<u64>,
    seq: u64,
    log_hash: u64,
    sig_hash: u64,
    handoffs: u64,
    max_handoffs: u64,
    shutdown: bool,
    trace: bool,
    yield_permille: u32,
    record_clock: bool,
    deadlock: Option<Vec<(String, &'static str)>>,
    overrun: bool,
    panics: Vec<(String, String)>,
    clock_reads: Vec<(u64, Tid, u64)>,
    os_handles: Vec<std::thread::JoinHandle<()>>,
    done: bool,
    record_events: bool,
    events: Vec<Ev>,
}

static ENGINE: Mutex<Inner> = Mutex::new(Inner {
    running: false,
    generation: 0,
    now: 0,
    threads: Vec::new(),
    current: usize::MAX,
    rng: 1,
    strategy: Strategy::Random,
    change_points: Vec::new(),
    seq: 0,
    log_hash: 0,
    sig_hash: 0,
    handoffs: 0,
    max_handoffs: 0,
    shutdown: false,
    trace: false,
    yield_permille: 0,
    record_clock: false,
    deadlock: None,
    overrun: false,
    panics: Vec::new(),
    clock_reads: Vec::new(),
    os_handles: Vec::new(),
    done: false,
    record_events: false,
    events: Vec::new(),
});
static DONE_CV: Condvar = Condvar::new();

thread_local! {
    static MY_TID: std::cell::Cell<Tid> = const { std::cell::Cell::new(usize::MAX) };
    static MY_GEN: std::cell::Cell<u64> = const { std::cell::Cell::new(0) };
}

fn lock() -> MutexGuard<'static, Inner> {
    match ENGINE.lock() {
        Ok(g) => g,
        Err(p) => p.into_inner(),
    }
}

pub fn my_tid() -> Tid {
    MY_TID.with(|t| t.get())
}

/// True when the calling OS thread is a simulated thread of the current run.
pub fn active() -> bool {
    my_tid() != usize::MAX
}

fn next_rand(x: &mut u64) -> u64 {
    // xorshift64*
    *x ^= *x >> 12;
    *x ^= *x << 25;
    *x ^= *x >> 27;
    x.wrapping_mul(0x2545F4914F6CDD1D)
}

fn fnv(h: u64, x: u64) -> u64 {
    (h ^ x).wrapping_mul(0x100000001b3).rotate_left(5)
}

fn log_locked(g: &mut Inner, kind: &'static str, a: u64, b: u64) -> u64 {
    g.seq += 1;
    let mut h = g.log_hash;
    h = fnv(h, g.seq);
    h = fnv(h, g.now);
    h = fnv(h, g.current as u64);
    for by in kind.bytes() {
        h = fnv(h, by as u64);
    }
    h = fnv(h, a);
    h = fnv(h, b);
    g.log_hash = h;
    // schedule signature: which thread did which kind of thing, in order (no payloads, no time)
    let mut s = g.sig_hash;
    s = fnv(s, g.current as u64);
    for by in kind.bytes() {
        s = fnv(s, by as u64);
    }
    g.sig_hash = s;
    if g.record_events {
        let ev = Ev { seq: g.seq, now: g.now, tid: g.current, kind, a, b };
        g.events.push(ev);
    }
    if g.trace {
        let name = g.threads.get(g.current).map(|t| t.name.as_str()).unwrap_or("?");
        eprintln!("[{:>7} t={:>14} {:<12}] {} {:x} {:x}", g.seq, g.now, name, kind, a, b);
    }
    g.seq
}

/// Append an event to the run's log; returns its global sequence number.
pub fn log(kind: &'static str, a: u64, b: u64) -> u64 {
    let mut g = lock();
    log_locked(&mut g, kind, a, b)
}

pub fn now() -> u64 {
    lock().now
}

/// Clock read by the system under test (logged, optionally recorded per thread).
pub fn clock_read() -> u64 {
    let mut g = lock();
    let now = g.now;
    let seq = log_locked(&mut g, "clock", now, 0);
    if g.record_clock {
        let tid = g.current;
        g.clock_reads.push((seq, tid, now));
    }
    now
}

pub fn seq() -> u64 {
    lock().seq
}

pub fn thread_name(tid: Tid) -> String {
    lock().threads.get(tid).map(|t| t.name.clone()).unwrap_or_default()
}

pub fn my_name() -> String {
    thread_name(my_tid())
}

/// Draw from the scheduler stream (for seam-level choices that belong to the schedule).
pub fn sched_rand(n: u64) -> u64 {
    let mut g = lock();
    if n == 0 {
        return 0;
    }
    next_rand(&mut g.rng) % n
}

fn pick(g: &mut Inner) -> Option<Tid> {
    loop {
        // every timer that has expired fires, not just one: threads whose deadlines coincide (clients released at the
        // same instant, a cleaning pass and a request timeout) are runnable together and race each other
        let now = g.now;
        for t in g.threads.iter_mut() {
            if t.st == St::Blocked && t.wake_at.map_or(false, |w| w <= now) {
                t.st = St::Runnable;
                t.timed_out = true;
                t.wake_at = None;
            }
        }
        let runnable: Vec<Tid> = g
            .threads
            .iter()
            .enumerate()
            .filter(|(_, t)| t.st == St::Runnable)
            .map(|(i, _)| i)
            .collect();
        if !runnable.is_empty() {
            if g.shutdown {
                return Some(runnable[0]);
            }
            let cur = g.current;
            let choice = match g.strategy {
                Strategy::Random => runnable[(next_rand(&mut g.rng) % runnable.len() as u64) as usize],
                Strategy::Sticky(p) => {
                    let stay = (next_rand(&mut g.rng) % 1000) < p as u64;
                    if stay && runnable.contains(&cur) {
                        cur
                    } else {
                        runnable[(next_rand(&mut g.rng) % runnable.len() as u64) as usize]
                    }
                }
                Strategy::Pct { .. } => {
                    if g.change_points.contains(&g.handoffs) && runnable.contains(&cur) {
                        // demote the running thread below everything else
                        let hit = g.change_points.iter().filter(|c| **c <= g.handoffs).count() as u64;
                        g.threads[cur].prio = 1_000 - hit.min(999);
                    }
                    *runnable.iter().max_by_key(|t| g.threads[**t].prio).unwrap()
                }
            };
            return Some(choice);
        }
        if g.shutdown {
            // wake blocked threads one at a time so that they unwind
            if let Some(i) = g.threads.iter().position(|t| t.st == St::Blocked) {
                g.threads[i].st = St::Runnable;
                g.threads[i].wake_at = None;
                continue;
            }
            return None;
        }
        // everything is blocked: jump to the earliest timer (ties: lowest tid)
        let mut best: Option<(u64, Tid)> = None;
        for (i, t) in g.threads.iter().enumerate() {
            if t.st == St::Blocked {
                if let Some(w) = t.wake_at {
                    if best.map_or(true, |(bw, _)| w < bw) {
                        best = Some((w, i));
                    }
                }
            }
        }
        match best {
            Some((w, _)) => {
                // advance the clock; the loop's first step wakes every thread whose deadline has been reached
                if w > g.now {
                    g.now = w;
                }
            }
            None => {
                let names: Vec<(String, &'static str)> = g
                    .threads
                    .iter()
                    .filter(|t| t.st == St::Blocked)
                    .map(|t| (t.name.clone(), t.reason))
                    .collect();
                g.deadlock = Some(names);
                g.shutdown = true;
            }
        }
    }
}

/// Hand the baton on; if `wait`, returns when this thread is chosen again.
fn switch(mut g: MutexGuard<'static, Inner>, me: Tid, wait: bool) {
    g.handoffs += 1;
    if g.handoffs > g.max_handoffs && !g.shutdown {
        g.overrun = true;
        g.shutdown = true;
    }
    let next = pick(&mut g);
    match next {
        Some(n) => {
            g.current = n;
            if n != me {
                g.threads[n].cv.notify_one();
            }
        }
        None => {
            g.current = usize::MAX;
            g.done = true;
            DONE_CV.notify_all();
        }
    }
    if !wait {
        return;
    }
    let cv = g.threads[me].cv.clone();
    while g.current != me {
        g = match cv.wait(g) {
            Ok(g) => g,
            Err(p) => p.into_inner(),
        };
    }
    if g.shutdown && !std::thread::panicking() {
        drop(g);
        std::panic::resume_unwind(Box::new(Shutdown));
    }
}

fn stale() -> bool {
    // a thread left over from an earlier run (cannot happen after a clean teardown)
    MY_GEN.with(|g| g.get()) != lock().generation
}

/// Block the calling simulated thread until woken or until `timeout_ns` of simulated time
/// has passed. Returns true if it timed out.
pub fn block(timeout_ns: Option<u64>, reason: &'static str) -> bool {
    let me = my_tid();
    assert!(me != usize::MAX, "engine::block called outside a simulated thread");
    let mut g = lock();
    if g.shutdown {
        if std::thread::panicking() {
            return true;
        }
        drop(g);
        std::panic::resume_unwind(Box::new(Shutdown));
    }
    g.threads[me].st = St::Blocked;
    g.threads[me].timed_out = false;
    g.threads[me].reason = reason;
    g.threads[me].wake_at = timeout_ns.map(|t| g.now.saturating_add(t));
    switch(g, me, true);
    let g = lock();
    g.threads[me].timed_out
}

/// A scheduling point: another runnable thread may be chosen.
pub fn yield_now() {
    let me = my_tid();
    if me == usize::MAX {
        return;
    }
    let g = lock();
    if g.shutdown {
        if std::thread::panicking() {
            return;
        }
        drop(g);
        std::panic::resume_unwind(Box::new(Shutdown));
    }
    switch(g, me, true);
}

/// A scheduling point taken with the run's configured probability.
pub fn maybe_yield() {
    let me = my_tid();
    if me == usize::MAX {
        return;
    }
    let y = {
        let mut g = lock();
        if g.shutdown {
            return;
        }
        let p = g.yield_permille as u64;
        p > 0 && next_rand(&mut g.rng) % 1000 < p
    };
    if y {
        yield_now();
    }
}

/// Stall the calling thread for `ns` of simulated time (fault: slow node).
pub fn sleep_ns(ns: u64) {
    if !active() {
        return;
    }
    let start = now();
    let mut left = ns;
    loop {
        if block(Some(left), "sleep") {
            return;
        }
        let el = now() - start;
        if el >= ns {
            return;
        }
        left = ns - el;
    }
}

pub fn wake(tid: Tid) {
    let mut g = lock();
    if tid < g.threads.len() && g.threads[tid].st == St::Blocked {
        g.threads[tid].st = St::Runnable;
        g.threads[tid].wake_at = None;
    }
}

pub fn is_finished(tid: Tid) -> bool {
    lock().threads[tid].st == St::Finished
}

pub fn has_panicked(tid: Tid) -> bool {
    lock().threads[tid].panicked
}

pub fn wait_finished(tid: Tid) {
    loop {
        {
            let mut g = lock();
            if g.threads[tid].st == St::Finished {
                return;
            }
            let me = g.current;
            g.threads[tid].joiners.push(me);
        }
        block(None, "join");
    }
}

fn panic_message(e: &(dyn std::any::Any + Send)) -> String {
    if let Some(s) = e.downcast_ref::<&'static str>() {
        s.to_string()
    } else if let Some(s) = e.downcast_ref::<String>() {
        s.clone()
    } else {
        "<non-string panic payload>".to_string()
    }
}

/// Register and start a simulated thread. `f` only runs while it holds the baton.
pub fn spawn_raw(name: String, f: Box<dyn FnOnce() + Send + 'static>) -> Tid {
    let cv = Arc::new(Condvar::new());
    let (tid, gen) = {
        let mut g = lock();
        assert!(g.running, "engine::spawn_raw outside a run");
        let prio = 1_000_000 + next_rand(&mut g.rng) % 1_000_000;
        g.threads.push(Th {
            st: St::Runnable,
            name: name.clone(),
            cv: cv.clone(),
            wake_at: None,
            timed_out: false,
            reason: "",
            prio,
            panicked: false,
            joiners: Vec::new(),
        });
        let tid = g.threads.len() - 1;
        log_locked(&mut g, "spawn", tid as u64, 0);
        (tid, g.generation)
    };
    let os = std::thread::Builder::new()
        .name(name)
        .stack_size(1 << 20)
        .spawn(move || {
            MY_TID.with(|t| t.set(tid));
            MY_GEN.with(|t| t.set(gen));
            {
                let mut g = lock();
                while g.current != tid {
                    g = match cv.wait(g) {
                        Ok(g) => g,
                        Err(p) => p.into_inner(),
                    };
                }
                if g.shutdown {
                    // never ran: finish at once
                    g.threads[tid].st = St::Finished;
                    let _ = log_locked(&mut g, "thread-exit", tid as u64, 0);
                    switch(g, tid, false);
                    return;
                }
            }
            let r = std::panic::catch_unwind(std::panic::AssertUnwindSafe(f));
            let mut g = lock();
            if let Err(e) = &r {
                if !e.is::<Shutdown>() {
                    g.threads[tid].panicked = true;
                    let n = g.threads[tid].name.clone();
                    let loc = LAST_PANIC.with(|l| l.borrow_mut().take()).unwrap_or_default();
                    g.panics.push((n, format!("{} @ {}", panic_message(e.as_ref()), loc)));
                }
            }
            g.threads[tid].st = St::Finished;
            log_locked(&mut g, "thread-exit", tid as u64, r.is_err() as u64);
            let joiners = std::mem::take(&mut g.threads[tid].joiners);
            for w in joiners {
                if g.threads[w].st == St::Blocked {
                    g.threads[w].st = St::Runnable;
                    g.threads[w].wake_at = None;
                }
            }
            switch(g, tid, false);
        })
        .expect("spawn OS thread");
    lock().os_handles.push(os);
    let _ = stale;
    tid
}

thread_local! {
    static LAST_PANIC: std::cell::RefCell<Option<String>> = const { std::cell::RefCell::new(None) };
}

fn install_panic_hook() {
    static ONCE: std::sync::Once = std::sync::Once::new();
    ONCE.call_once(|| {
        let prev = std::panic::take_hook();
        std::panic::set_hook(Box::new(move |info| {
            if info.payload().is::<Shutdown>() {
                return;
            }
            if active() {
                let loc = info.location().map(|l| format!("{}:{}", l.file(), l.line())).unwrap_or_default();
                LAST_PANIC.with(|l| *l.borrow_mut() = Some(loc));
                if std::env::var_os("VERIF_SHOW_PANICS").is_some() {
                    prev(info);
                }
                return;
            }
            prev(info);
        }));
    });
}

/// Run one simulation. `root` is the first simulated thread; the run ends when it returns
/// (or on deadlock / step overrun), after which every other simulated thread is unwound.
pub fn run(cfg: EngineCfg, root: impl FnOnce() + Send + 'static) -> Report {
    install_panic_hook();
    pin_to_one_cpu();
    {
        let mut g = lock();
        assert!(!g.running, "engine::run is not re-entrant");
        g.running = true;
        g.generation += 1;
        g.now = 0;
        g.threads.clear();
        g.current = usize::MAX;
        g.rng = cfg.sched_seed.wrapping_mul(0x9E3779B97F4A7C15) | 1;
        g.strategy = cfg.strategy;
        g.change_points.clear();
        if let Strategy::Pct { depth, horizon } = cfg.strategy {
            for _ in 0..depth {
                let r = next_rand(&mut g.rng) % horizon.max(1);
                g.change_points.push(r);
            }
        }
        g.seq = 0;
        g.log_hash = 0;
        g.sig_hash = 0;
        g.handoffs = 0;
        g.max_handoffs = cfg.max_handoffs;
        g.shutdown = false;
        g.trace = cfg.trace;
        g.yield_permille = cfg.yield_permille;
        g.record_clock = cfg.record_clock;
        g.deadlock = None;
        g.overrun = false;
        g.panics.clear();
        g.clock_reads.clear();
        g.done = false;
        g.record_events = cfg.record_events;
        g.events.clear();
    }
    crate::time::set_manual_ns(0);
    let root_tid = spawn_raw(
        "root".into(),
        Box::new(move || {
            root();
            let mut g = lock();
            g.shutdown = true;
        }),
    );
    {
        let mut g = lock();
        g.current = root_tid;
        g.threads[root_tid].cv.notify_one();
    }
    {
        let mut g = lock();
        let limit = Duration::from_secs(cfg.wall_limit_s);
        // the limit applies to wall-clock time *without progress* (no hand-off, no logged event): on a loaded machine a
        // hand-off between two OS threads can take a scheduler quantum, and a long run must not be mistaken for a hang
        let mut t0 = std::time::Instant::now();
        let mut seen = (g.handoffs, g.seq);
        while !g.done {
            let (ng, to) = match DONE_CV.wait_timeout(g, Duration::from_millis(500)) {
                Ok(x) => x,
                Err(p) => p.into_inner(),
            };
            g = ng;
            let _ = to;
            if (g.handoffs, g.seq) != seen {
                seen = (g.handoffs, g.seq);
                t0 = std::time::Instant::now();
            }
            if !g.done && t0.elapsed() > limit {
                let cur = g.current;
                let name = g.threads.get(cur).map(|t| t.name.clone()).unwrap_or_default();
                eprintln!(
                    "HARNESS-ERROR: wall-clock watchdog: no progress for {:?}; current thread {:?} ({}), sim now {} ns, handoffs {}, shutdown {}",
                    limit, cur, name, g.now, g.handoffs, g.shutdown
                );
                for (i, t) in g.threads.iter().enumerate() {
                    eprintln!("  thread {} {:<14} {:?} reason={} wake_at={:?}", i, t.name, t.st, t.reason, t.wake_at);
                }
                std::process::exit(2);
            }
        }
    }
    let hs: Vec<_> = std::mem::take(&mut lock().os_handles);
    for h in hs {
        let _ = h.join();
    }
    // threads spawned during teardown (rare): join them too
    loop {
        let hs: Vec<_> = std::mem::take(&mut lock().os_handles);
        if hs.is_empty() {
            break;
        }
        for h in hs {
            let _ = h.join();
        }
    }
    let mut g = lock();
    g.running = false;
    Report {
        now_ns: g.now,
        seq: g.seq,
        log_hash: g.log_hash,
        sig_hash: g.sig_hash,
        handoffs: g.handoffs,
        threads: g.threads.len(),
        deadlock: g.deadlock.take(),
        overrun: g.overrun,
        panics: std::mem::take(&mut g.panics),
        clock_reads: std::mem::take(&mut g.clock_reads),
        thread_names: g.threads.iter().map(|t| t.name.clone()).collect(),
        events: std::mem::take(&mut g.events),
    }
}

/// End the run from any simulated thread (the caller unwinds too).
pub fn request_shutdown() {
    let mut g = lock();
    g.shutdown = true;
}

pub fn pin_to_one_cpu() {
    static ONCE: std::sync::Once = std::sync::Once::new();
    ONCE.call_once(|| unsafe {
        if std::env::var_os("VERIF_NO_PIN").is_some() {
            return;
        }
        let cpu = match std::env::var("VERIF_CPU").ok().and_then(|v| v.parse::<i32>().ok()) {
            Some(c) => c,
            None => libc::sched_getcpu(),
        };
        if cpu >= 0 {
            let mut set: libc::cpu_set_t = std::mem::zeroed();
            libc::CPU_SET(cpu as usize, &mut set);
            libc::sched_setaffinity(0, std::mem::size_of::<libc::cpu_set_t>(), &set);
        }
    });
}
