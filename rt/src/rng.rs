//! OS entropy seam: the harness is built with `--cfg getrandom_backend="custom"`, so that
//! getrandom 0.3 / 0.4 (and through them rand::make_rng, ahash's seeds, the connection-id
//! key, tungstenite's frame masks) draw from the run's `entropy` stream.
use std::sync::atomic::{AtomicU64, Ordering};

static STATE: AtomicU64 = AtomicU64::new(0x1234_5678_9abc_def1);
static DRAWS: AtomicU64 = AtomicU64::new(0);

pub fn reseed(seed: u64) {
    STATE.store(seed ^ 0xD6E8_FEB8_6659_FD93, Ordering::SeqCst);
    DRAWS.store(0, Ordering::SeqCst);
}

pub fn draws() -> u64 {
    DRAWS.load(Ordering::SeqCst)
}

fn next() -> u64 {
    // SplitMix64 on an atomic counter: one stream shared by all threads; the order of draws
    // is decided by the (deterministic) schedule.
    let x = STATE.fetch_add(0x9E37_79B9_7F4A_7C15, Ordering::SeqCst).wrapping_add(0x9E37_79B9_7F4A_7C15);
    let mut z = x;
    z = (z ^ (z >> 30)).wrapping_mul(0xBF58_476D_1CE4_E5B9);
    z = (z ^ (z >> 27)).wrapping_mul(0x94D0_49BB_1331_11EB);
    z ^ (z >> 31)
}

pub fn fill(dest: &mut [u8]) {
    DRAWS.fetch_add(1, Ordering::SeqCst);
    for chunk in dest.chunks_mut(8) {
        let v = next().to_le_bytes();
        chunk.copy_from_slice(&v[..chunk.len()]);
    }
}

/// Custom backend symbol looked up by getrandom 0.3.x and 0.4.x.
#[no_mangle]
unsafe extern "Rust" fn __getrandom_v03_custom(dest: *mut u8, len: usize) -> Result<(), getrandom::Error> {
    let s = std::slice::from_raw_parts_mut(dest, len);
    fill(s);
    Ok(())
}
