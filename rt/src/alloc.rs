//! Counting allocator (C12 monitor): bytes requested by the current thread since the last
//! network input it received. The harness binaries install it as the global allocator; the
//! socket seams open a measurement window when they hand input to the tracker and the next
//! seam call of the same thread closes it.
use std::alloc::{GlobalAlloc, Layout, System};
use std::cell::Cell;
use std::sync::Mutex;

pub struct CountingAlloc;

thread_local! {
    static BYTES: Cell<u64> = const { Cell::new(0) };
    static WINDOW: Cell<u64> = const { Cell::new(0) }; // input length + 1 while a window is open
}

unsafe impl GlobalAlloc for CountingAlloc {
    unsafe fn alloc(&self, l: Layout) -> *mut u8 {
        let _ = BYTES.try_with(|b| b.set(b.get().wrapping_add(l.size() as u64)));
        System.alloc(l)
    }
    unsafe fn dealloc(&self, p: *mut u8, l: Layout) {
        System.dealloc(p, l)
    }
    unsafe fn realloc(&self, p: *mut u8, l: Layout, n: usize) -> *mut u8 {
        if n > l.size() {
            let _ = BYTES.try_with(|b| b.set(b.get().wrapping_add((n - l.size()) as u64)));
        }
        System.realloc(p, l, n)
    }
    unsafe fn alloc_zeroed(&self, l: Layout) -> *mut u8 {
        let _ = BYTES.try_with(|b| b.set(b.get().wrapping_add(l.size() as u64)));
        System.alloc_zeroed(l)
    }
}

/// (thread name, input length, bytes allocated while handling it)
static EXCESS: Mutex<Vec<(String, u64, u64)>> = Mutex::new(Vec::new());
static MAX_RATIO: Mutex<(u64, u64)> = Mutex::new((0, 0));

pub const MULTIPLE: u64 = 64;
pub const SLACK: u64 = 1 << 20;

pub fn reset_thread() {
    let _ = BYTES.try_with(|b| b.set(0));
}
pub fn thread_bytes() -> u64 {
    BYTES.try_with(|b| b.get()).unwrap_or(0)
}

/// The tracker has just been handed `len` bytes of network input on this thread.
pub fn begin_input(len: usize) {
    close_window();
    reset_thread();
    let _ = WINDOW.try_with(|w| w.set(len as u64 + 1));
}

/// Called at every seam point: closes an open window and judges it.
pub fn close_window() {
    let w = WINDOW.try_with(|w| w.replace(0)).unwrap_or(0);
    if w == 0 {
        return;
    }
    let len = w - 1;
    let used = thread_bytes();
    {
        let mut m = MAX_RATIO.lock().unwrap_or_else(|p| p.into_inner());
        if used > m.1 {
            *m = (len, used);
        }
    }
    if used > MULTIPLE * len + SLACK {
        let name = std::thread::current().name().unwrap_or("?").to_string();
        EXCESS.lock().unwrap_or_else(|p| p.into_inner()).push((name, len, used));
    }
}

pub fn take_excess() -> Vec<(String, u64, u64)> {
    std::mem::take(&mut *EXCESS.lock().unwrap_or_else(|p| p.into_inner()))
}
pub fn take_max() -> (u64, u64) {
    std::mem::take(&mut *MAX_RATIO.lock().unwrap_or_else(|p| p.into_inner()))
}
