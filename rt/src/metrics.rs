//! Stand-in for the prometheus exporter thread (`aquatic_common::spawn_prometheus_endpoint`).
//! The real worker builds a tokio runtime, binds an HTTP listener, renders the metrics every five
//! seconds and serves scrapes until the exporter fails. Here its life is a sequence of seam calls -
//! bind, then one sleep per render tick - so that the fault plan can make it fail to set up its
//! socket, return, or panic at any moment (C19: "socket, swarm, cleaning, statistics, signal or
//! metrics worker"). What the tracker's run() does with the worker's handle is the real code.
use std::net::SocketAddr;
use std::sync::atomic::{AtomicU64, Ordering};
use std::time::Duration;

static TICKS: AtomicU64 = AtomicU64::new(0);

/// render ticks of all simulated exporter threads since the last reset (reach probe)
pub fn ticks() -> u64 {
    TICKS.load(Ordering::Relaxed)
}

pub fn reset() {
    TICKS.store(0, Ordering::Relaxed);
}

pub fn run_sim_endpoint(addr: SocketAddr) -> std::io::Result<()> {
    crate::engine::log("metrics-bind", addr.port() as u64, 0);
    crate::fault::seam_point("metrics-bind");
    if let Some(e) = crate::fault::on_bind() {
        return Err(e);
    }
    loop {
        // `tokio::time::interval(5 s)`: first tick at once, then every five seconds
        TICKS.fetch_add(1, Ordering::Relaxed);
        crate::engine::log("metrics-render", 0, 0);
        if crate::fault::end_loop_now() {
            // the exporter future resolved (listener gone): the thread returns
            return Ok(());
        }
        crate::thread::sleep(Duration::from_secs(5));
    }
}
