pub mod tcp;
pub mod udp;
