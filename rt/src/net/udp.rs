//! Simulated UDP with a mio-shaped surface for the tracker side and an injection API for
//! the simulated network / clients. All state is process-global and reset per run.
use crate::engine;
use std::collections::{BTreeMap, BinaryHeap, VecDeque};
use std::io;
use std::net::{IpAddr, SocketAddr, SocketAddrV6};
use std::sync::Mutex;
use std::time::Duration;

#[derive(Clone, Debug)]
pub struct Datagram {
    pub id: u64,
    pub bytes: Vec<u8>,
    /// true network-level source
    pub src: SocketAddr,
}

#[derive(Clone, Debug)]
pub enum NetEvent {
    /// a datagram was put on the wire towards the tracker (after network faults)
    Inject { seq: u64, id: u64, src: SocketAddr, len: usize, sock: usize, bytes: Vec<u8> },
    /// the tracker's recv_from returned this datagram
    Recv { seq: u64, tid: engine::Tid, sock: usize, id: u64, src_presented: SocketAddr, len: usize, truncated: bool },
    /// the tracker called send_to
    Send { seq: u64, tid: engine::Tid, sock: usize, dest: SocketAddr, bytes: Vec<u8>, outcome: SendOutcome },
    /// recv_from returned WouldBlock (end of a drain loop)
    RecvEmpty { seq: u64, tid: engine::Tid, sock: usize },
}

#[derive(Clone, Copy, Debug, PartialEq)]
pub enum SendOutcome {
    Delivered,
    NoSuchHost,
    WouldBlock,
    NoBufs,
    OtherError,
}

#[derive(Clone, Copy, Debug, PartialEq)]
pub enum SendFault {
    WouldBlock,
    NoBufs,
    Other,
}

struct Sock {
    queue: VecDeque<Datagram>,
    waiter: Option<engine::Tid>,
    v6: bool,
    only_v6: bool,
    server: bool,
    addr: Option<SocketAddr>,
    owner: engine::Tid,
    sends: u64,
    recv_cap: usize,
    /// edge-triggered readiness (mio registers with EPOLLET): set by every arrival, cleared when a poll reports it.
    /// Datagrams a worker leaves in the queue are not reported again until the next arrival.
    edge: bool,
    recvs: u64,
}

struct Pending {
    at: u64,
    order: u64,
    sock: usize,
    d: Datagram,
}
impl PartialEq for Pending {
    fn eq(&self, o: &Self) -> bool {
        (self.at, self.order) == (o.at, o.order)
    }
}
impl Eq for Pending {}
impl PartialOrd for Pending {
    fn partial_cmp(&self, o: &Self) -> Option<std::cmp::Ordering> {
        Some(self.cmp(o))
    }
}
impl Ord for Pending {
    fn cmp(&self, o: &Self) -> std::cmp::Ordering {
        // BinaryHeap is a max-heap: reverse
        (o.at, o.order).cmp(&(self.at, self.order))
    }
}

#[derive(Default)]
struct Net {
    socks: Vec<Sock>,
    clients: BTreeMap<SocketAddr, usize>,
    events: Vec<NetEvent>,
    next_id: u64,
    pending: BinaryHeap<Pending>,
    order: u64,
    net_thread: Option<engine::Tid>,
    /// (server socket index, ordinal of send_to on that socket (1-based)) -> fault
    send_faults: BTreeMap<(usize, u64), SendFault>,
    /// (server socket index, ordinal of recv_from on that socket (1-based)) -> transient error kind (0: EINTR, 1: ECONNREFUSED, 2: ENOMEM)
    recv_faults: BTreeMap<(usize, u64), u8>,
    /// probability (per mille) that poll returns spuriously empty
    spurious_poll_permille: u32,
    fired: BTreeMap<&'static str, u64>,
}

static NET: Mutex<Option<Net>> = Mutex::new(None);

fn with<R>(f: impl FnOnce(&mut Net) -> R) -> R {
    let mut g = NET.lock().unwrap_or_else(|p| p.into_inner());
    if g.is_none() {
        *g = Some(Net::default());
    }
    f(g.as_mut().unwrap())
}

pub fn reset() {
    *NET.lock().unwrap_or_else(|p| p.into_inner()) = Some(Net::default());
}
pub fn take_events() -> Vec<NetEvent> {
    with(|n| std::mem::take(&mut n.events))
}
pub fn events_len() -> usize {
    with(|n| n.events.len())
}
pub fn fired() -> BTreeMap<&'static str, u64> {
    with(|n| n.fired.clone())
}
pub fn set_send_faults(f: BTreeMap<(usize, u64), SendFault>) {
    with(|n| n.send_faults = f);
}
pub fn set_recv_faults(f: BTreeMap<(usize, u64), u8>) {
    with(|n| n.recv_faults = f);
}
pub fn set_spurious_poll_permille(p: u32) {
    with(|n| n.spurious_poll_permille = p);
}
/// (socket index, is_v6, only_v6, owner thread) of every bound tracker socket
pub fn server_sockets() -> Vec<(usize, bool, bool, engine::Tid)> {
    with(|n| n.socks.iter().enumerate().filter(|(_, s)| s.server).map(|(i, s)| (i, s.v6, s.only_v6, s.owner)).collect())
}

fn to_mapped(a: SocketAddr) -> SocketAddr {
    match a {
        SocketAddr::V4(v4) => SocketAddr::V6(SocketAddrV6::new(v4.ip().to_ipv6_mapped(), v4.port(), 0, 0)),
        x => x,
    }
}
fn unmap(a: SocketAddr) -> SocketAddr {
    if let SocketAddr::V6(v6) = a {
        if let Some(v4) = v6.ip().to_ipv4_mapped() {
            return SocketAddr::new(IpAddr::V4(v4), v6.port());
        }
    }
    a
}

// ------------------------------------------------------------------ mio-shaped surface

#[derive(Clone, Copy, PartialEq, Eq, Debug, Hash, PartialOrd, Ord)]
pub struct Token(pub usize);
pub struct Interest;
impl Interest {
    pub const READABLE: Interest = Interest;
}
pub struct Event {
    token: Token,
}
impl Event {
    pub fn is_readable(&self) -> bool {
        true
    }
    pub fn token(&self) -> Token {
        self.token
    }
}
pub struct Events {
    v: Vec<Event>,
}
impl Events {
    pub fn with_capacity(_n: usize) -> Self {
        Events { v: Vec::new() }
    }
    pub fn iter(&self) -> std::slice::Iter<'_, Event> {
        self.v.iter()
    }
    pub fn is_empty(&self) -> bool {
        self.v.is_empty()
    }
}
pub struct Poll {
    regs: std::cell::RefCell<Vec<(usize, Token)>>,
}
pub struct Registry<'a> {
    p: &'a Poll,
}
impl Poll {
    pub fn new() -> io::Result<Self> {
        Ok(Poll { regs: Default::default() })
    }
    pub fn registry(&self) -> Registry<'_> {
        Registry { p: self }
    }
    pub fn poll(&mut self, events: &mut Events, timeout: Option<Duration>) -> io::Result<()> {
        events.v.clear();
        crate::fault::seam_point("poll");
        if crate::fault::end_loop_now() {
            return Err(io::Error::new(io::ErrorKind::Other, "injected: poll failed"));
        }
        let regs = self.regs.borrow().clone();
        let spurious = {
            let p = with(|n| n.spurious_poll_permille);
            p > 0 && engine::sched_rand(1000) < p as u64
        };
        let mut first = true;
        loop {
            let ready = with(|n| {
                for (id, tok) in &regs {
                    // edge-triggered, as mio on epoll: only arrivals since the last report count (an arrival the
                    // worker has already read in its drain loop still wakes it once more, as in the kernel)
                    if n.socks[*id].edge {
                        n.socks[*id].edge = false;
                        if n.socks[*id].queue.is_empty() {
                            *n.fired.entry("poll-edge-already-drained").or_insert(0) += 1;
                        }
                        events.v.push(Event { token: *tok });
                    }
                }
                if !events.v.is_empty() || !first {
                    for (id, _) in &regs {
                        n.socks[*id].waiter = None;
                    }
                    true
                } else {
                    for (id, _) in &regs {
                        n.socks[*id].waiter = Some(engine::my_tid());
                    }
                    false
                }
            });
            if ready {
                engine::log("poll-ret", events.v.len() as u64, 0);
                return Ok(());
            }
            if spurious {
                with(|n| {
                    *n.fired.entry("spurious-poll").or_insert(0) += 1;
                    for (id, _) in &regs {
                        n.socks[*id].waiter = None;
                    }
                });
                engine::yield_now();
                engine::log("poll-ret", 0, 1);
                return Ok(());
            }
            first = false;
            engine::block(timeout.map(|d| d.as_nanos() as u64), "poll");
        }
    }
}
impl Registry<'_> {
    pub fn register(&self, s: &mut UdpSocket, t: Token, _i: Interest) -> io::Result<()> {
        self.p.regs.borrow_mut().push((s.id, t));
        Ok(())
    }
}

pub struct UdpSocket {
    id: usize,
}

impl UdpSocket {
    /// Unreachable twin of mio's constructor (keeps the original code compiling).
    pub fn from_std(_s: std::net::UdpSocket) -> Self {
        panic!("real sockets are not available in the simulation")
    }

    /// Tracker side: bind one of the (SO_REUSEPORT) sockets of the configured port.
    pub fn sim_bind(v6: bool, only_v6: bool, addr: SocketAddr) -> io::Result<Self> {
        crate::fault::seam_point("bind");
        if let Some(e) = crate::fault::on_bind() {
            return Err(e);
        }
        let id = with(|n| {
            n.socks.push(Sock {
                queue: VecDeque::new(),
                waiter: None,
                edge: false,
                recvs: 0,
                v6,
                only_v6,
                server: true,
                addr: Some(addr),
                owner: engine::my_tid(),
                sends: 0,
                recv_cap: usize::MAX,
            });
            n.socks.len() - 1
        });
        engine::log("udp-bind", id as u64, v6 as u64);
        Ok(UdpSocket { id })
    }

    pub fn recv_from(&self, buf: &mut [u8]) -> io::Result<(usize, SocketAddr)> {
        crate::fault::seam_point("recv");
        let me = engine::my_tid();
        let injected = with(|n| {
            n.socks[self.id].recvs += 1;
            let k = n.socks[self.id].recvs;
            let f = n.recv_faults.remove(&(self.id, k));
            if f.is_some() {
                *n.fired.entry("recv-transient-error").or_insert(0) += 1;
            }
            f
        });
        if let Some(kind) = injected {
            // a transient error: nothing is consumed, the queue is as it was
            engine::log("udp-recv-error", self.id as u64, kind as u64);
            return Err(match kind {
                0 => io::ErrorKind::Interrupted.into(),
                1 => io::ErrorKind::ConnectionRefused.into(),
                _ => io::Error::from_raw_os_error(libc::ENOMEM),
            });
        }
        let r = with(|n| {
            let v6 = n.socks[self.id].v6;
            match n.socks[self.id].queue.pop_front() {
                Some(d) => {
                    let l = d.bytes.len().min(buf.len());
                    buf[..l].copy_from_slice(&d.bytes[..l]);
                    let presented = if v6 { to_mapped(d.src) } else { d.src };
                    Some((d.id, l, presented, l < d.bytes.len()))
                }
                None => None,
            }
        });
        match r {
            Some((id, l, presented, truncated)) => {
                let seq = engine::log("udp-recv", id, l as u64);
                with(|n| n.events.push(NetEvent::Recv { seq, tid: me, sock: self.id, id, src_presented: presented, len: l, truncated }));
                crate::alloc::begin_input(l);
                Ok((l, presented))
            }
            None => {
                let seq = engine::log("udp-recv-empty", self.id as u64, 0);
                with(|n| n.events.push(NetEvent::RecvEmpty { seq, tid: me, sock: self.id }));
                engine::maybe_yield();
                Err(io::ErrorKind::WouldBlock.into())
            }
        }
    }

    pub fn send_to(&self, buf: &[u8], addr: SocketAddr) -> io::Result<usize> {
        crate::fault::seam_point("send");
        let me = engine::my_tid();
        let (outcome, waiter) = with(|n| {
            n.socks[self.id].sends += 1;
            let k = n.socks[self.id].sends;
            if let Some(f) = n.send_faults.remove(&(self.id, k)) {
                let (o, name) = match f {
                    SendFault::WouldBlock => (SendOutcome::WouldBlock, "send-wouldblock"),
                    SendFault::NoBufs => (SendOutcome::NoBufs, "send-enobufs"),
                    SendFault::Other => (SendOutcome::OtherError, "send-error"),
                };
                *n.fired.entry(name).or_insert(0) += 1;
                return (o, None);
            }
            let v6 = n.socks[self.id].v6;
            if !v6 && addr.is_ipv6() {
                return (SendOutcome::OtherError, None);
            }
            let dest = unmap(addr);
            let from = n.socks[self.id].addr.unwrap_or_else(|| "0.0.0.0:0".parse().unwrap());
            match n.clients.get(&dest).copied() {
                Some(cid) => {
                    n.next_id += 1;
                    let id = n.next_id;
                    let cap = n.socks[cid].recv_cap;
                    if n.socks[cid].queue.len() < cap {
                        n.socks[cid].queue.push_back(Datagram { id, bytes: buf.to_vec(), src: from });
                    }
                    (SendOutcome::Delivered, n.socks[cid].waiter.take())
                }
                None => (SendOutcome::NoSuchHost, None),
            }
        });
        let seq = engine::log("udp-send", buf.len() as u64, outcome as u64);
        with(|n| n.events.push(NetEvent::Send { seq, tid: me, sock: self.id, dest: addr, bytes: buf.to_vec(), outcome }));
        if let Some(t) = waiter {
            engine::wake(t);
        }
        engine::maybe_yield();
        match outcome {
            SendOutcome::Delivered | SendOutcome::NoSuchHost => Ok(buf.len()),
            SendOutcome::WouldBlock => Err(io::ErrorKind::WouldBlock.into()),
            SendOutcome::NoBufs => Err(io::Error::from_raw_os_error(libc::ENOBUFS)),
            SendOutcome::OtherError => Err(io::Error::from_raw_os_error(libc::EPERM)),
        }
    }
}

// ------------------------------------------------------------------ network / client side

#[derive(Clone, Copy, Debug, PartialEq)]
pub enum Pick {
    /// stable hash of the source address and port (kernel-like SO_REUSEPORT)
    Hash,
    /// the k-th eligible socket (adversarial per-datagram choice), modulo their number
    Index(usize),
}

pub struct ClientSocket {
    id: usize,
    pub addr: SocketAddr,
}

pub fn client_bind(addr: SocketAddr) -> ClientSocket {
    let id = with(|n| {
        n.socks.push(Sock {
            queue: VecDeque::new(),
            waiter: None,
            v6: addr.is_ipv6(),
            only_v6: true,
            server: false,
            addr: Some(addr),
            owner: engine::my_tid(),
            sends: 0,
            recv_cap: 4096,
            edge: false,
            recvs: 0,
        });
        let id = n.socks.len() - 1;
        n.clients.insert(addr, id);
        id
    });
    ClientSocket { id, addr }
}

fn eligible(n: &Net, src: SocketAddr) -> Vec<usize> {
    let v4: Vec<usize> = n.socks.iter().enumerate().filter(|(_, s)| s.server && !s.v6).map(|(i, _)| i).collect();
    let v6: Vec<usize> = n.socks.iter().enumerate().filter(|(_, s)| s.server && s.v6).map(|(i, _)| i).collect();
    let dual: Vec<usize> = n.socks.iter().enumerate().filter(|(_, s)| s.server && s.v6 && !s.only_v6).map(|(i, _)| i).collect();
    if src.is_ipv4() {
        if !v4.is_empty() {
            v4
        } else {
            dual
        }
    } else {
        v6
    }
}

/// Put a datagram on the wire towards the tracker port. Returns its id, or None when no
/// socket of the tracker can receive from this source (e.g. IPv4 to an IPv6-only tracker).
pub fn inject(bytes: Vec<u8>, src: SocketAddr, pick: Pick, delay_ns: u64) -> Option<u64> {
    let now = engine::now();
    let r = with(|n| {
        let cands = eligible(n, src);
        if cands.is_empty() {
            return None;
        }
        let k = match pick {
            Pick::Index(i) => i % cands.len(),
            Pick::Hash => {
                let mut h: u64 = 0xcbf29ce484222325;
                let ipb: Vec<u8> = match src.ip() {
                    IpAddr::V4(a) => a.octets().to_vec(),
                    IpAddr::V6(a) => a.octets().to_vec(),
                };
                for b in ipb.iter().chain(src.port().to_be_bytes().iter()) {
                    h = (h ^ *b as u64).wrapping_mul(0x100000001b3);
                }
                (h >> 17) as usize % cands.len()
            }
        };
        let sock = cands[k];
        n.next_id += 1;
        let id = n.next_id;
        let d = Datagram { id, bytes, src };
        if delay_ns == 0 {
            let len = d.bytes.len();
            n.socks[sock].queue.push_back(d);
            n.socks[sock].edge = true;
            Some((id, sock, len, n.socks[sock].waiter.take(), None))
        } else {
            n.order += 1;
            let order = n.order;
            let len = d.bytes.len();
            n.pending.push(Pending { at: now + delay_ns, order, sock, d });
            Some((id, sock, len, None, n.net_thread))
        }
    });
    match r {
        None => None,
        Some((id, sock, len, waiter, net_thread)) => {
            if delay_ns == 0 {
                let seq = engine::log("udp-inject", id, len as u64);
                with(|n| {
                    let bytes = n.socks[sock].queue.iter().rev().find(|d| d.id == id).map(|d| d.bytes.clone()).unwrap_or_default();
                    n.events.push(NetEvent::Inject { seq, id, src, len, sock, bytes })
                });
            }
            if let Some(t) = waiter {
                engine::wake(t);
            }
            if let Some(t) = net_thread {
                engine::wake(t);
            }
            Some(id)
        }
    }
}

/// Body of the network thread: delivers delayed datagrams at their due time.
pub fn net_thread_main() {
    with(|n| n.net_thread = Some(engine::my_tid()));
    loop {
        let now = engine::now();
        let (due, next): (Vec<Pending>, Option<u64>) = with(|n| {
            let mut due = Vec::new();
            while n.pending.peek().map_or(false, |p| p.at <= now) {
                due.push(n.pending.pop().unwrap());
            }
            (due, n.pending.peek().map(|p| p.at))
        });
        for p in due {
            let id = p.d.id;
            let len = p.d.bytes.len();
            let src = p.d.src;
            let sock = p.sock;
            let bytes = p.d.bytes.clone();
            let w = with(|n| {
                n.socks[sock].queue.push_back(p.d);
                n.socks[sock].edge = true;
                n.socks[sock].waiter.take()
            });
            let seq = engine::log("udp-inject", id, len as u64);
            with(|n| n.events.push(NetEvent::Inject { seq, id, src, len, sock, bytes }));
            if let Some(t) = w {
                engine::wake(t);
            }
        }
        engine::block(next.map(|t| t.saturating_sub(engine::now()).max(1)), "net-idle");
    }
}

impl ClientSocket {
    /// Wait for a datagram addressed to this client.
    pub fn recv(&self, timeout: Duration) -> Option<Vec<u8>> {
        let mut timed_out = false;
        loop {
            let r = with(|n| {
                if let Some(d) = n.socks[self.id].queue.pop_front() {
                    n.socks[self.id].waiter = None;
                    return Some(Some(d.bytes));
                }
                if timed_out {
                    n.socks[self.id].waiter = None;
                    return Some(None);
                }
                n.socks[self.id].waiter = Some(engine::my_tid());
                None
            });
            if let Some(r) = r {
                return r;
            }
            timed_out = engine::block(Some(timeout.as_nanos() as u64), "client-recv");
        }
    }
    pub fn try_recv(&self) -> Option<Vec<u8>> {
        with(|n| n.socks[self.id].queue.pop_front().map(|d| d.bytes))
    }
}
