//! Simulated TCP: listeners and connections made of two bounded byte pipes. The tracker
//! side is poll-based (used by the glommio stub's TcpStream); the client side is blocking
//! (used by simulated client threads). All state is process-global and reset per run.
use crate::engine;
use std::collections::{BTreeMap, VecDeque};
use std::io;
use std::net::{IpAddr, SocketAddr, SocketAddrV6};
use std::sync::{Arc, Mutex};
use std::task::{Context, Poll, Waker};

pub struct Pipe {
    pub buf: VecDeque<u8>,
    pub cap: usize,
    /// writer closed its end (FIN): reader sees EOF after draining
    pub closed: bool,
    /// connection reset: reads and writes fail
    pub reset: bool,
    pub reader_waker: Option<Waker>,
    pub reader_tid: Option<engine::Tid>,
    pub writer_waker: Option<Waker>,
    pub writer_tid: Option<engine::Tid>,
    pub total_written: u64,
}

impl Pipe {
    fn new(cap: usize) -> Arc<Mutex<Pipe>> {
        Arc::new(Mutex::new(Pipe {
            buf: VecDeque::new(),
            cap,
            closed: false,
            reset: false,
            reader_waker: None,
            reader_tid: None,
            writer_waker: None,
            writer_tid: None,
            total_written: 0,
        }))
    }
}

fn notify_reader(p: &mut Pipe) -> (Option<Waker>, Option<engine::Tid>) {
    (p.reader_waker.take(), p.reader_tid.take())
}
fn notify_writer(p: &mut Pipe) -> (Option<Waker>, Option<engine::Tid>) {
    (p.writer_waker.take(), p.writer_tid.take())
}
fn fire(n: (Option<Waker>, Option<engine::Tid>)) {
    if let Some(w) = n.0 {
        w.wake();
    }
    if let Some(t) = n.1 {
        engine::wake(t);
    }
}

/// One connection. `c2s`: client writes, tracker reads. `s2c`: tracker writes, client reads.
#[derive(Clone)]
pub struct Conn {
    pub id: usize,
    pub c2s: Arc<Mutex<Pipe>>,
    pub s2c: Arc<Mutex<Pipe>>,
    /// the client's true network address
    pub client_addr: SocketAddr,
    /// as the accepting socket presents it (IPv4-mapped on a dual-stack IPv6 listener)
    pub presented_addr: SocketAddr,
    pub listener: usize,
}

pub struct ListenerState {
    pub pending: VecDeque<Conn>,
    pub waker: Option<Waker>,
    pub addr: SocketAddr,
    pub only_v6: bool,
    pub owner: engine::Tid,
    pub closed: bool,
}

#[derive(Default)]
struct Net {
    listeners: Vec<Arc<Mutex<ListenerState>>>,
    next_conn: usize,
    /// connection id -> caps for successive tracker-side writes (short writes)
    write_caps: BTreeMap<usize, VecDeque<usize>>,
    /// default capacity of the tracker->client pipe (back-pressure when the client is slow)
    s2c_cap: usize,
    c2s_cap: usize,
    fired: BTreeMap<&'static str, u64>,
    accepted: u64,
    /// accept attempts that found a connection waiting (1-based ordinal over all listeners) which fail once with
    /// ECONNABORTED / EMFILE instead; the waiting connection stays in the backlog
    accept_faults: std::collections::BTreeSet<u64>,
    accept_attempts: u64,
}

static NET: Mutex<Option<Net>> = Mutex::new(None);

fn with<R>(f: impl FnOnce(&mut Net) -> R) -> R {
    let mut g = NET.lock().unwrap_or_else(|p| p.into_inner());
    if g.is_none() {
        *g = Some(Net { s2c_cap: 1 << 20, c2s_cap: 1 << 20, ..Default::default() });
    }
    f(g.as_mut().unwrap())
}

pub fn reset() {
    *NET.lock().unwrap_or_else(|p| p.into_inner()) = Some(Net { s2c_cap: 1 << 20, c2s_cap: 1 << 20, ..Default::default() });
}
pub fn fired() -> BTreeMap<&'static str, u64> {
    with(|n| n.fired.clone())
}
pub fn set_pipe_caps(c2s: usize, s2c: usize) {
    with(|n| {
        n.c2s_cap = c2s.max(1);
        n.s2c_cap = s2c.max(1);
    });
}
/// Short-write plan: the k-th tracker-side write on connection `conn` accepts at most caps[k].
pub fn set_write_caps(conn: usize, caps: Vec<usize>) {
    with(|n| {
        n.write_caps.insert(conn, caps.into_iter().collect());
    });
}
pub fn set_accept_faults(f: std::collections::BTreeSet<u64>) {
    with(|n| n.accept_faults = f);
}
pub fn num_listeners() -> usize {
    with(|n| n.listeners.len())
}
/// (index, is_v6, only_v6, owner thread) of every listener
pub fn listeners() -> Vec<(usize, bool, bool, engine::Tid)> {
    with(|n| {
        n.listeners
            .iter()
            .enumerate()
            .map(|(i, l)| {
                let l = l.lock().unwrap();
                (i, l.addr.is_ipv6(), l.only_v6, l.owner)
            })
            .collect()
    })
}

fn to_mapped(a: SocketAddr) -> SocketAddr {
    match a {
        SocketAddr::V4(v4) => SocketAddr::V6(SocketAddrV6::new(v4.ip().to_ipv6_mapped(), v4.port(), 0, 0)),
        x => x,
    }
}

// ------------------------------------------------------------------ tracker side

pub fn bind(addr: SocketAddr, only_v6: bool) -> io::Result<Arc<Mutex<ListenerState>>> {
    crate::fault::seam_point("tcp-bind");
    if let Some(e) = crate::fault::on_bind() {
        return Err(e);
    }
    let l = Arc::new(Mutex::new(ListenerState { pending: VecDeque::new(), waker: None, addr, only_v6, owner: engine::my_tid(), closed: false }));
    with(|n| n.listeners.push(l.clone()));
    engine::log("tcp-bind", addr.port() as u64, addr.is_ipv6() as u64);
    Ok(l)
}

/// Poll for the next accepted connection. `Ready(None)` = listener closed (injected).
pub fn poll_accept(l: &Arc<Mutex<ListenerState>>, cx: &mut Context<'_>) -> Poll<Option<io::Result<Conn>>> {
    crate::fault::seam_point("accept");
    if crate::fault::end_loop_now() {
        l.lock().unwrap().closed = true;
    }
    let mut g = l.lock().unwrap();
    if g.closed {
        return Poll::Ready(None);
    }
    if !g.pending.is_empty() {
        let fail = with(|n| {
            n.accept_attempts += 1;
            let k = n.accept_attempts;
            let f = n.accept_faults.remove(&k);
            if f {
                *n.fired.entry("accept-transient-error").or_insert(0) += 1;
            }
            f
        });
        if fail {
            engine::log("tcp-accept-error", 0, 0);
            return Poll::Ready(Some(Err(io::Error::from_raw_os_error(libc::ECONNABORTED))));
        }
    }
    match g.pending.pop_front() {
        Some(c) => {
            drop(g);
            with(|n| n.accepted += 1);
            engine::log("tcp-accept", c.id as u64, 0);
            Poll::Ready(Some(Ok(c)))
        }
        None => {
            g.waker = Some(cx.waker().clone());
            Poll::Pending
        }
    }
}

pub fn poll_read(c: &Conn, cx: &mut Context<'_>, b: &mut [u8]) -> Poll<io::Result<usize>> {
    crate::fault::seam_point("tcp-read");
    let mut p = c.c2s.lock().unwrap();
    if p.reset {
        return Poll::Ready(Err(io::Error::from_raw_os_error(libc::ECONNRESET)));
    }
    if !p.buf.is_empty() {
        let n = b.len().min(p.buf.len());
        for (i, x) in p.buf.drain(..n).enumerate() {
            b[i] = x;
        }
        let w = notify_writer(&mut p);
        drop(p);
        fire(w);
        engine::log("s-read", c.id as u64, n as u64);
        crate::alloc::begin_input(n);
        return Poll::Ready(Ok(n));
    }
    if p.closed {
        return Poll::Ready(Ok(0));
    }
    p.reader_waker = Some(cx.waker().clone());
    Poll::Pending
}

pub fn poll_peek(c: &Conn, cx: &mut Context<'_>, b: &mut [u8]) -> Poll<io::Result<usize>> {
    let mut p = c.c2s.lock().unwrap();
    if p.reset {
        return Poll::Ready(Err(io::Error::from_raw_os_error(libc::ECONNRESET)));
    }
    if !p.buf.is_empty() || p.closed {
        let n = b.len().min(p.buf.len());
        for (i, x) in p.buf.iter().take(n).enumerate() {
            b[i] = *x;
        }
        return Poll::Ready(Ok(n));
    }
    p.reader_waker = Some(cx.waker().clone());
    Poll::Pending
}

pub fn poll_write(c: &Conn, cx: &mut Context<'_>, b: &[u8]) -> Poll<io::Result<usize>> {
    crate::fault::seam_point("tcp-write");
    if b.is_empty() {
        return Poll::Ready(Ok(0));
    }
    let cap_fault = with(|n| n.write_caps.get_mut(&c.id).and_then(|q| q.pop_front()));
    let mut p = c.s2c.lock().unwrap();
    if p.reset {
        return Poll::Ready(Err(io::Error::from_raw_os_error(libc::ECONNRESET)));
    }
    if p.closed {
        return Poll::Ready(Err(io::Error::from_raw_os_error(libc::EPIPE)));
    }
    let room = p.cap.saturating_sub(p.buf.len());
    if room == 0 {
        p.writer_waker = Some(cx.waker().clone());
        drop(p);
        // the cap (if any) was not consumed by a real write: put it back
        if let Some(k) = cap_fault {
            with(|n| n.write_caps.entry(c.id).or_default().push_front(k));
        }
        with(|n| *n.fired.entry("tcp-backpressure").or_insert(0) += 1);
        return Poll::Pending;
    }
    let mut n = b.len().min(room);
    if n < b.len() {
        with(|nn| *nn.fired.entry("tcp-short-write-pipe-full").or_insert(0) += 1);
    }
    if let Some(k) = cap_fault {
        if k.max(1) < n {
            n = k.max(1);
            with(|nn| *nn.fired.entry("tcp-short-write").or_insert(0) += 1);
        }
    }
    p.buf.extend(&b[..n]);
    p.total_written += n as u64;
    let w = notify_reader(&mut p);
    drop(p);
    fire(w);
    engine::log("s-write", c.id as u64, n as u64);
    Poll::Ready(Ok(n))
}

/// Tracker closes its sending direction (also used on drop of the stream).
pub fn server_close(c: &Conn) {
    let w = {
        let mut p = c.s2c.lock().unwrap();
        if p.closed {
            (None, None)
        } else {
            p.closed = true;
            notify_reader(&mut p)
        }
    };
    fire(w);
    // the tracker no longer reads: a blocked client writer must not wait for ever
    let w = {
        let mut p = c.c2s.lock().unwrap();
        p.reset = true;
        notify_writer(&mut p)
    };
    fire(w);
    engine::log("server-close", c.id as u64, 0);
}

// ------------------------------------------------------------------ client side

#[derive(Clone, Copy, Debug, PartialEq)]
pub enum Pick {
    Hash,
    Index(usize),
}

pub struct ClientStream {
    pub conn: Conn,
    closed: bool,
    /// timeout of the blocking `io::Read` implementation (simulated time)
    pub read_timeout_ns: u64,
    /// report a read timeout as `WouldBlock` (what tungstenite expects from a polled socket)
    pub timeout_is_would_block: bool,
}

/// Open a connection from `from`. None when no listener can accept this family.
pub fn connect(from: SocketAddr, pick: Pick) -> Option<ClientStream> {
    let r = with(|n| {
        let mut v4 = Vec::new();
        let mut v6 = Vec::new();
        let mut dual = Vec::new();
        for (i, l) in n.listeners.iter().enumerate() {
            let l = l.lock().unwrap();
            if l.closed {
                continue;
            }
            if l.addr.is_ipv4() {
                v4.push(i);
            } else {
                v6.push(i);
                if !l.only_v6 {
                    dual.push(i);
                }
            }
        }
        let cands = if from.is_ipv4() {
            if !v4.is_empty() {
                v4
            } else {
                dual
            }
        } else {
            v6
        };
        if cands.is_empty() {
            return None;
        }
        let k = match pick {
            Pick::Index(i) => i % cands.len(),
            Pick::Hash => {
                let mut h: u64 = 0xcbf29ce484222325;
                let ipb: Vec<u8> = match from.ip() {
                    IpAddr::V4(a) => a.octets().to_vec(),
                    IpAddr::V6(a) => a.octets().to_vec(),
                };
                for b in ipb.iter().chain(from.port().to_be_bytes().iter()) {
                    h = (h ^ *b as u64).wrapping_mul(0x100000001b3);
                }
                (h >> 17) as usize % cands.len()
            }
        };
        let li = cands[k];
        let l = n.listeners[li].clone();
        let id = n.next_conn;
        n.next_conn += 1;
        let is_v6_listener = l.lock().unwrap().addr.is_ipv6();
        let presented = if is_v6_listener { to_mapped(from) } else { from };
        let conn = Conn { id, c2s: Pipe::new(n.c2s_cap), s2c: Pipe::new(n.s2c_cap), client_addr: from, presented_addr: presented, listener: li };
        let w = {
            let mut g = l.lock().unwrap();
            g.pending.push_back(conn.clone());
            g.waker.take()
        };
        Some((conn, w))
    });
    let (conn, w) = r?;
    engine::log("tcp-connect", conn.id as u64, conn.listener as u64);
    if let Some(w) = w {
        w.wake();
    }
    engine::maybe_yield();
    Some(ClientStream { conn, closed: false, read_timeout_ns: 30_000_000_000, timeout_is_would_block: false })
}

impl ClientStream {
    pub fn id(&self) -> usize {
        self.conn.id
    }

    /// Write all of `data` (blocks under back-pressure). Err when the tracker closed / reset.
    pub fn write(&self, data: &[u8]) -> io::Result<()> {
        let mut off = 0;
        while off < data.len() {
            let r = {
                let mut p = self.conn.c2s.lock().unwrap();
                if p.reset || p.closed {
                    return Err(io::Error::from_raw_os_error(libc::EPIPE));
                }
                let room = p.cap.saturating_sub(p.buf.len());
                if room == 0 {
                    p.writer_tid = Some(engine::my_tid());
                    None
                } else {
                    let n = room.min(data.len() - off);
                    p.buf.extend(&data[off..off + n]);
                    off += n;
                    Some(notify_reader(&mut p))
                }
            };
            match r {
                Some(w) => fire(w),
                None => {
                    engine::block(Some(60_000_000_000), "client-write");
                }
            }
        }
        engine::log("c-write", self.conn.id as u64, data.len() as u64);
        engine::maybe_yield();
        Ok(())
    }

    /// Read up to `max` bytes. Ok(empty) = EOF; Err(TimedOut) = nothing within the timeout.
    pub fn read(&self, max: usize, timeout_ns: u64) -> io::Result<Vec<u8>> {
        let mut timed_out = false;
        loop {
            {
                let mut p = self.conn.s2c.lock().unwrap();
                if !p.buf.is_empty() {
                    let n = max.min(p.buf.len());
                    let v: Vec<u8> = p.buf.drain(..n).collect();
                    p.reader_tid = None;
                    let w = notify_writer(&mut p);
                    drop(p);
                    fire(w);
                    engine::log("c-read", self.conn.id as u64, n as u64);
                    return Ok(v);
                }
                if p.reset {
                    p.reader_tid = None;
                    return Err(io::Error::from_raw_os_error(libc::ECONNRESET));
                }
                if p.closed {
                    p.reader_tid = None;
                    return Ok(Vec::new());
                }
                if timed_out {
                    p.reader_tid = None;
                    return Err(io::ErrorKind::TimedOut.into());
                }
                p.reader_tid = Some(engine::my_tid());
            }
            timed_out = engine::block(Some(timeout_ns), "client-read");
        }
    }

    /// Orderly close of the client's sending direction (FIN).
    pub fn shutdown_write(&mut self) {
        let w = {
            let mut p = self.conn.c2s.lock().unwrap();
            p.closed = true;
            notify_reader(&mut p)
        };
        fire(w);
        engine::log("client-fin", self.conn.id as u64, 0);
    }

    /// Abrupt reset (RST): both directions fail from now on.
    pub fn reset(&mut self) {
        self.closed = true;
        let w = {
            let mut p = self.conn.c2s.lock().unwrap();
            p.reset = true;
            p.buf.clear();
            notify_reader(&mut p)
        };
        fire(w);
        let w = {
            let mut p = self.conn.s2c.lock().unwrap();
            p.reset = true;
            notify_writer(&mut p)
        };
        fire(w);
        engine::log("client-reset", self.conn.id as u64, 0);
    }

    pub fn close(&mut self) {
        if self.closed {
            return;
        }
        self.closed = true;
        self.shutdown_write();
        // stop reading too: the tracker's writes now fail instead of filling the pipe
        let w = {
            let mut p = self.conn.s2c.lock().unwrap();
            p.reset = true;
            notify_writer(&mut p)
        };
        fire(w);
    }
}

impl Drop for ClientStream {
    fn drop(&mut self) {
        if std::thread::panicking() {
            return;
        }
        self.close();
    }
}

impl io::Read for ClientStream {
    fn read(&mut self, buf: &mut [u8]) -> io::Result<usize> {
        let v = match ClientStream::read(self, buf.len(), self.read_timeout_ns) {
            Ok(v) => v,
            Err(e) if e.kind() == io::ErrorKind::TimedOut && self.timeout_is_would_block => return Err(io::ErrorKind::WouldBlock.into()),
            Err(e) => return Err(e),
        };
        buf[..v.len()].copy_from_slice(&v);
        Ok(v.len())
    }
}
impl io::Write for ClientStream {
    fn write(&mut self, buf: &[u8]) -> io::Result<usize> {
        ClientStream::write(self, buf)?;
        Ok(buf.len())
    }
    fn flush(&mut self) -> io::Result<()> {
        Ok(())
    }
}
