//! Simulated TCP: listeners and byte pipes (filled in together with the glommio stub).
pub fn reset() {}
