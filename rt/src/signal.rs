//! signal_hook::iterator::Signals look-alike fed by the scenario's "operator".
use crate::engine;
use std::collections::VecDeque;
use std::sync::Mutex;

struct St {
    pending: VecDeque<i32>,
    waiter: Option<engine::Tid>,
    closed: bool,
}
static STATE: Mutex<St> = Mutex::new(St { pending: VecDeque::new(), waiter: None, closed: false });

pub fn reset() {
    let mut s = STATE.lock().unwrap();
    s.pending.clear();
    s.waiter = None;
    s.closed = false;
}

pub struct Signals;

impl Signals {
    pub fn new<I: IntoIterator<Item = i32>>(_s: I) -> std::io::Result<Self> {
        if let Some(e) = crate::fault::on_signals_new() {
            return Err(e);
        }
        Ok(Signals)
    }
}

/// Operator side: deliver a signal to the tracker.
pub fn raise(sig: i32) {
    let w = {
        let mut p = STATE.lock().unwrap();
        p.pending.push_back(sig);
        p.waiter.take()
    };
    engine::log("signal-raise", sig as u64, 0);
    if let Some(t) = w {
        engine::wake(t);
    }
}

/// Fault: the signal iterator ends (as `signal_hook` does when its handle is closed).
pub fn close() {
    let w = {
        let mut p = STATE.lock().unwrap();
        p.closed = true;
        p.waiter.take()
    };
    engine::log("signal-close", 0, 0);
    if let Some(t) = w {
        engine::wake(t);
    }
}

pub struct Forever;

impl<'a> IntoIterator for &'a mut Signals {
    type Item = i32;
    type IntoIter = Forever;
    fn into_iter(self) -> Forever {
        Forever
    }
}

impl Iterator for Forever {
    type Item = i32;
    fn next(&mut self) -> Option<i32> {
        loop {
            crate::fault::seam_point("signal-wait");
            {
                let mut p = STATE.lock().unwrap();
                if let Some(s) = p.pending.pop_front() {
                    return Some(s);
                }
                if p.closed {
                    return None;
                }
                p.waiter = Some(engine::my_tid());
            }
            engine::log("signal-idle", 0, 0);
            engine::block(None, "signal-wait");
        }
    }
}
