//! Lock seam for `aquatic_udp::swarm`. Engine / plain builds: parking_lot itself. Shuttle
//! build (feature "shuttle"): a lock with parking_lot's API and blocking rules built on
//! shuttle's Mutex + Condvar so that every acquisition is a scheduling point owned by
//! shuttle's scheduler.

#[cfg(not(feature = "shuttle"))]
pub use parking_lot::{RwLock, RwLockUpgradableReadGuard};

#[cfg(feature = "shuttle")]
pub use self::shuttle_impl::*;

#[cfg(feature = "shuttle")]
mod shuttle_impl {
    use shuttle::sync::{Condvar, Mutex};
    use std::cell::UnsafeCell;
    use std::ops::{Deref, DerefMut};
    use std::sync::atomic::{AtomicU64, Ordering};

    /// Probe counters (how often the interesting blocking rules were exercised).
    pub static LOCK_OPS: AtomicU64 = AtomicU64::new(0);
    pub static BLOCKED: AtomicU64 = AtomicU64::new(0);
    pub static UPGRADES: AtomicU64 = AtomicU64::new(0);

    /// Interleaving signature: hash of the sequence of (lock event kind, acting thread).
    pub static SIG: AtomicU64 = AtomicU64::new(0);
    fn observe(_addr: usize, kind: u8) {
        LOCK_OPS.fetch_add(1, Ordering::Relaxed);
        let me = {
            let id = format!("{:?}", shuttle::thread::current().id());
            id.bytes().fold(0u64, |h, b| (h ^ b as u64).wrapping_mul(0x100000001b3))
        };
        let h = SIG.load(Ordering::Relaxed);
        SIG.store((h ^ (kind as u64) ^ me.rotate_left(8)).wrapping_mul(0x100000001b3).rotate_left(7), Ordering::Relaxed);
    }

    #[derive(Default)]
    struct State {
        readers: usize,
        writer: bool,
        upgradable: bool,
        writers_waiting: usize,
    }

    pub struct RwLock<T> {
        state: Mutex<State>,
        cv: Condvar,
        data: UnsafeCell<T>,
    }

    unsafe impl<T: Send> Send for RwLock<T> {}
    unsafe impl<T: Send + Sync> Sync for RwLock<T> {}

    impl<T: Default> Default for RwLock<T> {
        fn default() -> Self {
            RwLock::new(T::default())
        }
    }

    impl<T> RwLock<T> {
        pub fn new(t: T) -> Self {
            RwLock { state: Mutex::new(State::default()), cv: Condvar::new(), data: UnsafeCell::new(t) }
        }
        fn addr(&self) -> usize {
            self as *const _ as usize
        }

        pub fn read(&self) -> RwLockReadGuard<'_, T> {
            let mut s = self.state.lock().unwrap();
            // parking_lot: a parked writer blocks new readers (task-fair); a writer that has
            // not parked yet does not. Both orders are explored by the scheduler because the
            // writer registers itself (writers_waiting) at its own scheduling point.
            let mut blocked = false;
            while s.writer || s.writers_waiting > 0 {
                blocked = true;
                s = self.cv.wait(s).unwrap();
            }
            if blocked {
                BLOCKED.fetch_add(1, Ordering::Relaxed);
            }
            s.readers += 1;
            drop(s);
            observe(self.addr(), b'r');
            RwLockReadGuard { lock: self }
        }

        pub fn upgradable_read(&self) -> RwLockUpgradableReadGuard<'_, T> {
            let mut s = self.state.lock().unwrap();
            let mut blocked = false;
            while s.writer || s.upgradable || s.writers_waiting > 0 {
                blocked = true;
                s = self.cv.wait(s).unwrap();
            }
            if blocked {
                BLOCKED.fetch_add(1, Ordering::Relaxed);
            }
            s.upgradable = true;
            drop(s);
            observe(self.addr(), b'u');
            RwLockUpgradableReadGuard { lock: self, live: true }
        }

        pub fn write(&self) -> RwLockWriteGuard<'_, T> {
            let mut s = self.state.lock().unwrap();
            let mut blocked = false;
            s.writers_waiting += 1;
            while s.writer || s.upgradable || s.readers > 0 {
                blocked = true;
                s = self.cv.wait(s).unwrap();
            }
            s.writers_waiting -= 1;
            if blocked {
                BLOCKED.fetch_add(1, Ordering::Relaxed);
            }
            s.writer = true;
            drop(s);
            observe(self.addr(), b'w');
            RwLockWriteGuard { lock: self }
        }

        pub fn get_mut(&mut self) -> &mut T {
            self.data.get_mut()
        }

        pub fn try_read(&self) -> Option<RwLockReadGuard<'_, T>> {
            let mut s = self.state.lock().unwrap();
            if s.writer || s.writers_waiting > 0 {
                return None;
            }
            s.readers += 1;
            drop(s);
            observe(self.addr(), b'r');
            Some(RwLockReadGuard { lock: self })
        }

        pub fn try_upgradable_read(&self) -> Option<RwLockUpgradableReadGuard<'_, T>> {
            let mut s = self.state.lock().unwrap();
            if s.writer || s.upgradable || s.writers_waiting > 0 {
                return None;
            }
            s.upgradable = true;
            drop(s);
            observe(self.addr(), b'u');
            Some(RwLockUpgradableReadGuard { lock: self, live: true })
        }

        pub fn try_write(&self) -> Option<RwLockWriteGuard<'_, T>> {
            let mut s = self.state.lock().unwrap();
            if s.writer || s.upgradable || s.readers > 0 {
                return None;
            }
            s.writer = true;
            drop(s);
            observe(self.addr(), b'w');
            Some(RwLockWriteGuard { lock: self })
        }

        pub fn read_recursive(&self) -> RwLockReadGuard<'_, T> {
            let mut s = self.state.lock().unwrap();
            while s.writer {
                s = self.cv.wait(s).unwrap();
            }
            s.readers += 1;
            drop(s);
            observe(self.addr(), b'r');
            RwLockReadGuard { lock: self }
        }

        pub fn is_locked(&self) -> bool {
            let s = self.state.lock().unwrap();
            s.writer || s.upgradable || s.readers > 0
        }

        pub fn into_inner(self) -> T {
            self.data.into_inner()
        }
    }

    impl<'a, T> RwLockWriteGuard<'a, T> {
        /// Atomically downgrade a write lock into a read lock.
        pub fn downgrade(s: Self) -> RwLockReadGuard<'a, T> {
            let lock = s.lock;
            std::mem::forget(s);
            let mut st = lock.state.lock().unwrap();
            st.writer = false;
            st.readers += 1;
            drop(st);
            observe(lock.addr(), b'd');
            lock.cv.notify_all();
            RwLockReadGuard { lock }
        }
    }

    impl<'a, T> RwLockUpgradableReadGuard<'a, T> {
        pub fn try_upgrade(mut s: Self) -> Result<RwLockWriteGuard<'a, T>, Self> {
            let lock = s.lock;
            let mut st = lock.state.lock().unwrap();
            if st.readers > 0 {
                drop(st);
                return Err(s);
            }
            s.live = false;
            st.upgradable = false;
            st.writer = true;
            drop(st);
            observe(lock.addr(), b'g');
            Ok(RwLockWriteGuard { lock })
        }
    }

    pub struct RwLockReadGuard<'a, T> {
        lock: &'a RwLock<T>,
    }
    impl<T> Deref for RwLockReadGuard<'_, T> {
        type Target = T;
        fn deref(&self) -> &T {
            unsafe { &*self.lock.data.get() }
        }
    }
    impl<T> Drop for RwLockReadGuard<'_, T> {
        fn drop(&mut self) {
            let mut s = self.lock.state.lock().unwrap();
            s.readers -= 1;
            drop(s);
            observe(self.lock.addr(), b'R');
            self.lock.cv.notify_all();
        }
    }

    pub struct RwLockWriteGuard<'a, T> {
        lock: &'a RwLock<T>,
    }
    impl<T> Deref for RwLockWriteGuard<'_, T> {
        type Target = T;
        fn deref(&self) -> &T {
            unsafe { &*self.lock.data.get() }
        }
    }
    impl<T> DerefMut for RwLockWriteGuard<'_, T> {
        fn deref_mut(&mut self) -> &mut T {
            unsafe { &mut *self.lock.data.get() }
        }
    }
    impl<T> Drop for RwLockWriteGuard<'_, T> {
        fn drop(&mut self) {
            let mut s = self.lock.state.lock().unwrap();
            s.writer = false;
            drop(s);
            observe(self.lock.addr(), b'W');
            self.lock.cv.notify_all();
        }
    }

    pub struct RwLockUpgradableReadGuard<'a, T> {
        lock: &'a RwLock<T>,
        live: bool,
    }
    impl<'a, T> RwLockUpgradableReadGuard<'a, T> {
        /// Atomically upgrade to a write lock, waiting for the other readers to leave.
        pub fn upgrade(mut s: Self) -> RwLockWriteGuard<'a, T> {
            let lock = s.lock;
            s.live = false;
            let mut st = lock.state.lock().unwrap();
            UPGRADES.fetch_add(1, Ordering::Relaxed);
            // while upgrading, new readers are held back like behind a waiting writer
            st.writers_waiting += 1;
            let mut blocked = false;
            while st.readers > 0 {
                blocked = true;
                st = lock.cv.wait(st).unwrap();
            }
            st.writers_waiting -= 1;
            if blocked {
                BLOCKED.fetch_add(1, Ordering::Relaxed);
            }
            st.upgradable = false;
            st.writer = true;
            drop(st);
            observe(lock.addr(), b'g');
            RwLockWriteGuard { lock }
        }
    }
    impl<T> Deref for RwLockUpgradableReadGuard<'_, T> {
        type Target = T;
        fn deref(&self) -> &T {
            unsafe { &*self.lock.data.get() }
        }
    }
    impl<T> Drop for RwLockUpgradableReadGuard<'_, T> {
        fn drop(&mut self) {
            if !self.live {
                return;
            }
            let mut s = self.lock.state.lock().unwrap();
            s.upgradable = false;
            drop(s);
            observe(self.lock.addr(), b'U');
            self.lock.cv.notify_all();
        }
    }
}
