//! std::thread look-alikes on the engine.
use crate::engine;
use std::sync::{Arc, Mutex};
use std::time::Duration;

pub struct Builder {
    name: Option<String>,
}

pub struct JoinHandle<T> {
    tid: engine::Tid,
    result: Arc<Mutex<Option<std::thread::Result<T>>>>,
}

impl Builder {
    #[allow(clippy::new_without_default)]
    pub fn new() -> Self {
        Builder { name: None }
    }
    pub fn name(mut self, n: String) -> Self {
        self.name = Some(n);
        self
    }
    pub fn spawn<F, T>(self, f: F) -> std::io::Result<JoinHandle<T>>
    where
        F: FnOnce() -> T + Send + 'static,
        T: Send + 'static,
    {
        let name = self.name.unwrap_or_else(|| "thread".into());
        if let Some(e) = crate::fault::on_spawn(&name) {
            return Err(e);
        }
        let result = Arc::new(Mutex::new(None));
        let r2 = result.clone();
        let tid = engine::spawn_raw(
            name,
            Box::new(move || {
                let r = std::panic::catch_unwind(std::panic::AssertUnwindSafe(f));
                let shutdown = matches!(&r, Err(e) if e.is::<engine::Shutdown>());
                if shutdown {
                    std::panic::resume_unwind(Box::new(engine::Shutdown));
                }
                match r {
                    Ok(v) => {
                        *r2.lock().unwrap() = Some(Ok(v));
                    }
                    Err(e) => {
                        // keep a printable copy for join(), re-raise so that the engine records it
                        let msg: String = if let Some(s) = e.downcast_ref::<&'static str>() {
                            s.to_string()
                        } else if let Some(s) = e.downcast_ref::<String>() {
                            s.clone()
                        } else {
                            "panic".into()
                        };
                        *r2.lock().unwrap() = Some(Err(Box::new(msg.clone()) as Box<dyn std::any::Any + Send>));
                        std::panic::resume_unwind(e);
                    }
                }
            }),
        );
        engine::maybe_yield();
        Ok(JoinHandle { tid, result })
    }
}

impl<T> JoinHandle<T> {
    pub fn is_finished(&self) -> bool {
        engine::is_finished(self.tid)
    }
    pub fn join(self) -> std::thread::Result<T> {
        engine::wait_finished(self.tid);
        let r = self.result.lock().unwrap().take();
        match r {
            Some(r) => r,
            None => Err(Box::new("thread ended without a result".to_string())),
        }
    }
    pub fn tid(&self) -> engine::Tid {
        self.tid
    }
}

pub fn spawn<F, T>(f: F) -> JoinHandle<T>
where
    F: FnOnce() -> T + Send + 'static,
    T: Send + 'static,
{
    Builder::new().spawn(f).unwrap()
}

pub fn spawn_named<F, T>(name: &str, f: F) -> JoinHandle<T>
where
    F: FnOnce() -> T + Send + 'static,
    T: Send + 'static,
{
    Builder::new().name(name.to_string()).spawn(f).unwrap()
}

pub fn sleep(d: Duration) {
    engine::log("sleep", d.as_nanos() as u64, 0);
    crate::fault::seam_point("sleep");
    engine::sleep_ns(d.as_nanos() as u64);
}

pub fn available_parallelism() -> std::io::Result<std::num::NonZeroUsize> {
    Ok(std::num::NonZeroUsize::new(1).unwrap())
}

/// `std::sync::Barrier` on the engine: the last of `n` arrivals is the leader and releases the rest.
/// (A std barrier would park the one OS thread that holds the baton.)
pub struct Barrier {
    n: usize,
    state: Mutex<(usize, u64, Vec<engine::Tid>)>, // (arrived, generation, waiters)
}
pub struct BarrierWaitResult(bool);
impl BarrierWaitResult {
    pub fn is_leader(&self) -> bool {
        self.0
    }
}
impl Barrier {
    pub fn new(n: usize) -> Self {
        Barrier { n, state: Mutex::new((0, 0, Vec::new())) }
    }
    pub fn wait(&self) -> BarrierWaitResult {
        crate::fault::seam_point("barrier-wait");
        let gen = {
            let mut s = self.state.lock().unwrap();
            s.0 += 1;
            if s.0 >= self.n {
                s.0 = 0;
                s.1 += 1;
                let ws = std::mem::take(&mut s.2);
                drop(s);
                engine::log("barrier-release", ws.len() as u64, 0);
                for w in ws {
                    engine::wake(w);
                }
                engine::maybe_yield();
                return BarrierWaitResult(true);
            }
            s.2.push(engine::my_tid());
            s.1
        };
        engine::log("barrier-wait", gen, 0);
        loop {
            engine::block(None, "barrier");
            if self.state.lock().unwrap().1 != gen {
                return BarrierWaitResult(false);
            }
        }
    }
}
