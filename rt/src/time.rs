//! Simulated monotonic clock. Inside an engine run it is the engine's discrete-event time;
//! outside (single-thread STORE harnesses, shuttle runs) it is a manually stepped clock.
use std::sync::atomic::{AtomicU64, Ordering};
use std::time::Duration;

static MANUAL_NS: AtomicU64 = AtomicU64::new(0);
static READS: AtomicU64 = AtomicU64::new(0);

pub fn set_manual_ns(ns: u64) {
    MANUAL_NS.store(ns, Ordering::SeqCst);
}
pub fn set_manual_secs(s: u64) {
    set_manual_ns(s * 1_000_000_000);
}
pub fn manual_ns() -> u64 {
    MANUAL_NS.load(Ordering::SeqCst)
}
/// number of clock reads through the seam since process start (probe)
pub fn reads() -> u64 {
    READS.load(Ordering::Relaxed)
}

pub fn now_ns() -> u64 {
    READS.fetch_add(1, Ordering::Relaxed);
    if crate::engine::active() {
        crate::engine::clock_read()
    } else {
        manual_ns()
    }
}

#[derive(Clone, Copy, Debug, PartialEq, Eq, PartialOrd, Ord, Hash)]
pub struct Instant(u64);

impl Instant {
    pub fn now() -> Self {
        Instant(now_ns())
    }
    pub fn checked_duration_since(&self, earlier: Instant) -> Option<Duration> {
        self.0.checked_sub(earlier.0).map(Duration::from_nanos)
    }
    pub fn duration_since(&self, earlier: Instant) -> Duration {
        Duration::from_nanos(self.0.saturating_sub(earlier.0))
    }
    pub fn saturating_duration_since(&self, earlier: Instant) -> Duration {
        self.duration_since(earlier)
    }
    pub fn elapsed(&self) -> Duration {
        Instant::now().duration_since(*self)
    }
    pub fn as_nanos(&self) -> u64 {
        self.0
    }
}

impl std::ops::Sub<Instant> for Instant {
    type Output = Duration;
    fn sub(self, rhs: Instant) -> Duration {
        self.duration_since(rhs)
    }
}
impl std::ops::Add<Duration> for Instant {
    type Output = Instant;
    fn add(self, rhs: Duration) -> Instant {
        Instant(self.0 + rhs.as_nanos() as u64)
    }
}
impl std::ops::Sub<Duration> for Instant {
    type Output = Instant;
    fn sub(self, rhs: Duration) -> Instant {
        Instant(self.0.saturating_sub(rhs.as_nanos() as u64))
    }
}
