//! aquatic_verif_rt: the seams aquatic links against under `--cfg aquatic_verif`.
//! Everything the trackers would get from the OS — time, threads, signals, sockets, files,
//! entropy, lock scheduling — is served from here under the simulator's control.
pub mod alloc;
pub mod engine;
pub mod fault;
pub mod fs;
pub mod metrics;
pub mod net;
pub mod rng;
pub mod signal;
pub mod sync;
pub mod thread;
pub mod time;

/// Reset every process-global piece of simulated environment (called before each run).
pub fn reset_all(entropy_seed: u64) {
    fs::reset();
    net::udp::reset();
    net::tcp::reset();
    signal::reset();
    metrics::reset();
    fault::clear();
    rng::reseed(entropy_seed);
    let _ = alloc::take_excess();
    let _ = alloc::take_max();
    time::set_manual_ns(0);
}
