//! File seam: `File` wraps a real `std::fs::File` inside a per-process scratch directory
//! and turns every call (`create`, each `write`, `flush`, close, `open`, each `read`) into
//! a numbered step at which the scenario can inject an error, a short transfer or a crash.
//! A crash point freezes the seam after a given step and unwinds the caller (process-kill
//! model: completed calls persist, user-space buffers are lost — a `BufWriter` flushing in
//! its destructor during the unwind writes into a frozen, discarding file).
//! `rename` and `unlink` need no hook in the repository either: the tracker calls the real
//! `std::fs::rename` on the real scratch files, and this crate *interposes* the C symbols
//! `rename` / `unlink` that std calls (a definition in the executable wins over libc's). While
//! `track_path_ops(true)` is in force, such a call on a path inside the scratch directory is a
//! numbered step like the others - observer after it, error injection, crash point (a crash
//! point after a path step freezes the seam instead of unwinding: the caller is C ABI) - and is
//! then performed by the kernel (its atomicity is the kernel's).
use std::collections::BTreeMap;
use std::io;
use std::path::{Path, PathBuf};
use std::sync::Mutex;

/// Unwind payload raised at a crash point.
pub struct Crash;

#[derive(Clone, Debug, PartialEq)]
pub enum FsOp {
    Create,
    Open,
    Write,
    Flush,
    Close,
    Read,
    Rename,
    Unlink,
}

#[derive(Clone, Debug, Default)]
pub struct FsFaults {
    /// freeze the seam and unwind the caller after this step number (1-based) completes
    pub crash_after_step: Option<u64>,
    /// the step with this number fails with an I/O error instead of being performed
    pub error_at_step: Option<u64>,
    /// writes to this path fail (ENOSPC) once this many bytes have been written to it
    pub enospc_after: Option<(PathBuf, usize)>,
    /// reads of this path fail (EIO) once this many bytes have been read from it
    pub read_error_after: Option<(PathBuf, usize)>,
    /// reads return at most this many bytes
    pub max_read_chunk: Option<usize>,
    /// writes accept at most this many bytes (short writes)
    pub max_write_chunk: Option<usize>,
    /// open of this path fails with this kind
    pub open_error: Option<(PathBuf, io::ErrorKind)>,
    /// create of this path fails
    pub create_error: Option<PathBuf>,
}

#[derive(Default)]
struct State {
    step: u64,
    frozen: bool,
    faults: FsFaults,
    trace: Vec<(u64, FsOp, PathBuf, usize)>,
    fired: BTreeMap<&'static str, u64>,
    written: BTreeMap<PathBuf, usize>,
    read: BTreeMap<PathBuf, usize>,
}

static STATE: Mutex<Option<State>> = Mutex::new(None);
type Observer = Box<dyn FnMut(u64, &FsOp, &Path) + Send>;
static OBSERVER: Mutex<Option<Observer>> = Mutex::new(None);
static SCRATCH: Mutex<Option<PathBuf>> = Mutex::new(None);

fn with<R>(f: impl FnOnce(&mut State) -> R) -> R {
    let mut g = STATE.lock().unwrap_or_else(|p| p.into_inner());
    if g.is_none() {
        *g = Some(State::default());
    }
    f(g.as_mut().unwrap())
}

/// Per-process scratch directory for simulated trackers' files (emptied by `reset`).
pub fn scratch_dir() -> PathBuf {
    let mut g = SCRATCH.lock().unwrap_or_else(|p| p.into_inner());
    if g.is_none() {
        let base = if Path::new("/dev/shm").is_dir() { PathBuf::from("/dev/shm") } else { std::env::temp_dir() };
        let d = base.join(format!("aquatic-verif-{}", std::process::id()));
        let _ = std::fs::remove_dir_all(&d);
        std::fs::create_dir_all(&d).expect("create scratch dir");
        *g = Some(d);
    }
    g.clone().unwrap()
}

/// Remove the scratch directory (call at process exit).
pub fn cleanup() {
    let g = SCRATCH.lock().unwrap_or_else(|p| p.into_inner()).take();
    if let Some(d) = g {
        let _ = std::fs::remove_dir_all(d);
    }
}

/// Reset the seam: empty scratch directory, no faults, step counter 0.
pub fn reset() {
    {
        let mut g = STATE.lock().unwrap_or_else(|p| p.into_inner());
        *g = Some(State::default());
    }
    *OBSERVER.lock().unwrap_or_else(|p| p.into_inner()) = None;
    let had = SCRATCH.lock().unwrap_or_else(|p| p.into_inner()).clone();
    if let Some(d) = had {
        if let Ok(rd) = std::fs::read_dir(&d) {
            for e in rd.flatten() {
                let p = e.path();
                if p.is_dir() {
                    let _ = std::fs::remove_dir_all(p);
                } else {
                    let _ = std::fs::remove_file(p);
                }
            }
        }
    }
}

pub fn set_faults(f: FsFaults) {
    with(|s| s.faults = f);
}
/// Restart step numbering (so that fault coordinates are relative to "now").
pub fn reset_steps() {
    with(|s| {
        s.step = 0;
        s.trace.clear();
        s.written.clear();
        s.read.clear();
        s.frozen = false;
    });
}
pub fn steps() -> u64 {
    with(|s| s.step)
}
pub fn is_frozen() -> bool {
    with(|s| s.frozen)
}
pub fn trace() -> Vec<(u64, FsOp, PathBuf, usize)> {
    with(|s| s.trace.clone())
}
pub fn fired() -> BTreeMap<&'static str, u64> {
    with(|s| s.fired.clone())
}
/// Install an observer called after every completed step (models a concurrent reader that
/// can be scheduled between any two file-system calls of the tracker).
pub fn set_observer(o: Option<Observer>) {
    *OBSERVER.lock().unwrap_or_else(|p| p.into_inner()) = o;
}

enum Outcome {
    Proceed(u64),
    Fail(io::Error),
}

fn begin(op: FsOp, path: &Path) -> Outcome {
    with(|s| {
        if s.frozen {
            return Outcome::Fail(io::Error::new(io::ErrorKind::Other, "file seam frozen (after crash point)"));
        }
        s.step += 1;
        let n = s.step;
        s.trace.push((n, op, path.to_path_buf(), 0));
        if s.faults.error_at_step == Some(n) {
            *s.fired.entry("error-at-step").or_insert(0) += 1;
            return Outcome::Fail(io::Error::new(io::ErrorKind::Other, "injected I/O error"));
        }
        Outcome::Proceed(n)
    })
}

/// End of a step: seam point (worker-death faults), observer, crash point.
fn end(step: u64, op: FsOp, path: &Path) {
    crate::fault::seam_point("fs");
    if let Ok(mut o) = OBSERVER.try_lock() {
        if let Some(o) = o.as_mut() {
            o(step, &op, path);
        }
    }
    let crash = with(|s| {
        if s.faults.crash_after_step == Some(step) && !s.frozen {
            s.frozen = true;
            *s.fired.entry("crash").or_insert(0) += 1;
            true
        } else {
            false
        }
    });
    if crash && !std::thread::panicking() {
        std::panic::resume_unwind(Box::new(Crash));
    }
}

#[derive(Debug)]
pub struct File {
    inner: Option<std::fs::File>,
    path: PathBuf,
    writable: bool,
}

impl File {
    pub fn create<P: AsRef<Path>>(path: P) -> io::Result<File> {
        let path = path.as_ref().to_path_buf();
        let step = match begin(FsOp::Create, &path) {
            Outcome::Fail(e) => return Err(e),
            Outcome::Proceed(n) => n,
        };
        let injected = with(|s| {
            if s.faults.create_error.as_deref() == Some(path.as_path()) {
                *s.fired.entry("create-error").or_insert(0) += 1;
                true
            } else {
                false
            }
        });
        let r = if injected {
            Err(io::Error::new(io::ErrorKind::PermissionDenied, "injected: create failed"))
        } else {
            std::fs::File::create(&path).map(|f| File { inner: Some(f), path: path.clone(), writable: true })
        };
        end(step, FsOp::Create, &path);
        r
    }

    pub fn open<P: AsRef<Path>>(path: P) -> io::Result<File> {
        let path = path.as_ref().to_path_buf();
        let step = match begin(FsOp::Open, &path) {
            Outcome::Fail(e) => return Err(e),
            Outcome::Proceed(n) => n,
        };
        let injected = with(|s| {
            if let Some((p, k)) = &s.faults.open_error {
                if *p == path {
                    let k = *k;
                    *s.fired.entry("open-error").or_insert(0) += 1;
                    return Some(k);
                }
            }
            None
        });
        let r = match injected {
            Some(k) => Err(io::Error::new(k, "injected: open failed")),
            None => std::fs::File::open(&path).map(|f| File { inner: Some(f), path: path.clone(), writable: false }),
        };
        end(step, FsOp::Open, &path);
        r
    }
}

impl io::Read for File {
    fn read(&mut self, buf: &mut [u8]) -> io::Result<usize> {
        let path = self.path.clone();
        let step = match begin(FsOp::Read, &path) {
            Outcome::Fail(e) => return Err(e),
            Outcome::Proceed(n) => n,
        };
        let (limit, fail) = with(|s| {
            let already = *s.read.get(&path).unwrap_or(&0);
            let mut limit = buf.len();
            if let Some(m) = s.faults.max_read_chunk {
                limit = limit.min(m.max(1));
            }
            if let Some((p, after)) = &s.faults.read_error_after {
                if *p == path {
                    if already >= *after {
                        *s.fired.entry("read-error").or_insert(0) += 1;
                        return (0, true);
                    }
                    limit = limit.min(*after - already);
                }
            }
            (limit, false)
        });
        let r = if fail {
            Err(io::Error::new(io::ErrorKind::Other, "injected: read failed (EIO)"))
        } else {
            let r = self.inner.as_mut().unwrap().read(&mut buf[..limit]);
            if let Ok(n) = &r {
                with(|s| {
                    *s.read.entry(path.clone()).or_insert(0) += *n;
                    if limit < buf.len() && *n == limit && limit > 0 {
                        *s.fired.entry("short-read").or_insert(0) += 1;
                    }
                });
            }
            r
        };
        end(step, FsOp::Read, &path);
        r
    }
}

impl io::Write for File {
    fn write(&mut self, buf: &[u8]) -> io::Result<usize> {
        let path = self.path.clone();
        let step = match begin(FsOp::Write, &path) {
            Outcome::Fail(e) => return Err(e),
            Outcome::Proceed(n) => n,
        };
        let (n, fail) = with(|s| {
            let already = *s.written.get(&path).unwrap_or(&0);
            let mut n = buf.len();
            if let Some(m) = s.faults.max_write_chunk {
                if n > m.max(1) {
                    n = m.max(1);
                    *s.fired.entry("short-write").or_insert(0) += 1;
                }
            }
            if let Some((p, after)) = &s.faults.enospc_after {
                if *p == path {
                    if already >= *after {
                        *s.fired.entry("enospc").or_insert(0) += 1;
                        return (0, true);
                    }
                    n = n.min(*after - already);
                }
            }
            (n, false)
        });
        let r = if fail {
            Err(io::Error::new(io::ErrorKind::Other, "injected: No space left on device"))
        } else {
            let r = self.inner.as_mut().unwrap().write(&buf[..n]);
            if let Ok(k) = &r {
                with(|s| {
                    *s.written.entry(path.clone()).or_insert(0) += *k;
                    if let Some(t) = s.trace.last_mut() {
                        t.3 = *k;
                    }
                });
            }
            r
        };
        end(step, FsOp::Write, &path);
        r
    }

    fn flush(&mut self) -> io::Result<()> {
        let path = self.path.clone();
        let step = match begin(FsOp::Flush, &path) {
            Outcome::Fail(e) => return Err(e),
            Outcome::Proceed(n) => n,
        };
        let r = self.inner.as_mut().unwrap().flush();
        end(step, FsOp::Flush, &path);
        r
    }
}

impl Drop for File {
    fn drop(&mut self) {
        let inner = self.inner.take();
        if !self.writable {
            return;
        }
        let path = self.path.clone();
        match begin(FsOp::Close, &path) {
            Outcome::Proceed(step) => {
                drop(inner);
                if !std::thread::panicking() {
                    end(step, FsOp::Close, &path);
                }
            }
            Outcome::Fail(_) => drop(inner),
        }
    }
}


// ------------------------------------------------------------------ rename / unlink interposition

static TRACK_PATH_OPS: std::sync::atomic::AtomicBool = std::sync::atomic::AtomicBool::new(false);

/// Treat `rename` / `unlink` calls on scratch-directory paths as file steps (only while tracker code runs).
pub fn track_path_ops(on: bool) {
    TRACK_PATH_OPS.store(on, std::sync::atomic::Ordering::SeqCst);
}

fn tracked(p: *const libc::c_char) -> Option<PathBuf> {
    if !TRACK_PATH_OPS.load(std::sync::atomic::Ordering::Relaxed) || p.is_null() {
        return None;
    }
    let path = {
        use std::os::unix::ffi::OsStrExt;
        let c = unsafe { std::ffi::CStr::from_ptr(p) };
        PathBuf::from(std::ffi::OsStr::from_bytes(c.to_bytes()))
    };
    let dir = SCRATCH.try_lock().ok()?.clone()?;
    if path.starts_with(&dir) {
        Some(path)
    } else {
        None
    }
}

/// End of a path step. No unwinding here (C ABI caller): a crash point freezes the seam, so that
/// whatever the tracker does to its files afterwards fails as it would for a dead process.
fn end_path_step(step: u64, op: FsOp, path: &Path) {
    if let Ok(mut o) = OBSERVER.try_lock() {
        if let Some(o) = o.as_mut() {
            o(step, &op, path);
        }
    }
    with(|s| {
        if s.faults.crash_after_step == Some(step) && !s.frozen {
            s.frozen = true;
            *s.fired.entry("crash").or_insert(0) += 1;
        }
    });
}

fn path_step(op: FsOp, path: &Path, real: impl FnOnce() -> libc::c_int) -> libc::c_int {
    match begin(op.clone(), path) {
        Outcome::Fail(_) => {
            unsafe { *libc::__errno_location() = libc::EIO };
            -1
        }
        Outcome::Proceed(step) => {
            let r = real();
            let e = unsafe { *libc::__errno_location() };
            end_path_step(step, op, path);
            unsafe { *libc::__errno_location() = e };
            r
        }
    }
}

/// Interposed `rename(2)` (what `std::fs::rename` calls).
#[no_mangle]
pub unsafe extern "C" fn rename(old: *const libc::c_char, new: *const libc::c_char) -> libc::c_int {
    let real = || libc::syscall(libc::SYS_rename, old, new) as libc::c_int;
    match tracked(new) {
        Some(path) => path_step(FsOp::Rename, &path, real),
        None => real(),
    }
}

/// Interposed `unlink(2)` (what `std::fs::remove_file` calls).
#[no_mangle]
pub unsafe extern "C" fn unlink(p: *const libc::c_char) -> libc::c_int {
    let real = || libc::syscall(libc::SYS_unlink, p) as libc::c_int;
    match tracked(p) {
        Some(path) => path_step(FsOp::Unlink, &path, real),
        None => real(),
    }
}
