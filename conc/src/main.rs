//! `conc`: shuttle-scheduled concurrency harness for C04 (UDP shared swarm state).
//!   conc batch  --harness udp_conc --prop C04 --tier quick|thorough --seed S --first I --count N --out FILE
//!   conc replay --file REPLAY.json
#[path = "../../sim/src/core.rs"]
mod core;
#[path = "../../sim/src/model.rs"]
mod model;
#[path = "../../sim/src/prng.rs"]
mod prng;
mod udp_conc;

use crate::core::*;
use std::collections::BTreeMap;

fn args_map() -> (String, BTreeMap<String, String>) {
    let mut it = std::env::args().skip(1);
    let cmd = it.next().unwrap_or_default();
    let mut m = BTreeMap::new();
    let rest: Vec<String> = it.collect();
    let mut i = 0;
    while i < rest.len() {
        if let Some(k) = rest[i].strip_prefix("--") {
            if i + 1 < rest.len() && !rest[i + 1].starts_with("--") {
                m.insert(k.to_string(), rest[i + 1].clone());
                i += 2;
            } else {
                m.insert(k.to_string(), "1".into());
                i += 1;
            }
        } else {
            i += 1;
        }
    }
    (cmd, m)
}

fn main() {
    let (cmd, m) = args_map();
    install_quiet_panic_hook();
    let code = match cmd.as_str() {
        "batch" => {
            let prop = m.get("prop").cloned().unwrap_or_default();
            let tier = if m.get("tier").map(|s| s.as_str()) == Some("thorough") { Tier::Thorough } else { Tier::Quick };
            let seed: u64 = m.get("seed").and_then(|s| s.parse().ok()).unwrap_or(1);
            let first: u64 = m.get("first").and_then(|s| s.parse().ok()).unwrap_or(0);
            let count: u64 = m.get("count").and_then(|s| s.parse().ok()).unwrap_or(10);
            let budget: f64 = m.get("budget-s").and_then(|s| s.parse().ok()).unwrap_or(0.0);
            let rep = run_batch::<udp_conc::UdpConc>(&prop, tier, seed, first, count, budget, 4);
            let out = m.get("out").cloned().unwrap_or_else(|| "/dev/stdout".into());
            std::fs::write(&out, serde_json::to_string(&rep).unwrap()).expect("write batch report");
            if out != "/dev/stdout" {
                let mut b = Vec::new();
                for s in &rep.stats.signatures {
                    b.extend_from_slice(&s.to_le_bytes());
                }
                let _ = std::fs::write(format!("{}.sigs", out), b);
                let _ = std::fs::write(format!("{}.states", out), Vec::<u8>::new());
            }
            if !rep.nondeterminism.is_empty() {
                eprintln!("HARNESS-ERROR: non-determinism detected: {:?}", rep.nondeterminism);
                2
            } else {
                0
            }
        }
        "replay" => {
            let f = m.get("file").cloned().unwrap_or_default();
            let txt = std::fs::read_to_string(&f).unwrap_or_else(|e| {
                eprintln!("HARNESS-ERROR: cannot read {}: {}", f, e);
                std::process::exit(2)
            });
            let v: serde_json::Value = serde_json::from_str(&txt).unwrap();
            let prop = v["prop"].as_str().unwrap_or("").to_string();
            let check = v["check"].as_str().unwrap_or("").to_string();
            match replay::<udp_conc::UdpConc>(&prop, &v["scenario"]) {
                Ok(out) => match out.violations.iter().find(|x| x.prop == prop && (check.is_empty() || x.check == check)) {
                    Some(x) => {
                        println!("VIOLATION-REPRODUCED property={} check={} signature={} fingerprint={:016x}", x.prop, x.check, x.signature, out.fingerprint);
                        println!("  detail: {}", x.detail);
                        1
                    }
                    None => {
                        println!("NOT-REPRODUCED property={} (other violations: {})", prop, out.violations.len());
                        0
                    }
                },
                Err(e) => {
                    eprintln!("HARNESS-ERROR: cannot replay: {:#}", e);
                    2
                }
            }
        }
        _ => {
            eprintln!("usage: conc batch|replay ...");
            2
        }
    };
    std::process::exit(code);
}
