//! UDP-CONC: the real `aquatic_udp::swarm::TorrentMaps` shared by 2-4 shuttle threads, with
//! `swarm.rs` compiled against the shuttle-backed RwLock of `aquatic_verif_rt::sync` (every
//! lock acquisition and release is a scheduling point owned by shuttle's scheduler).
//! One scenario = one small program (pre-state + per-thread operation lists) explored under
//! many PCT / random schedules. Oracle: the recorded history (invoke/return stamped by a global
//! event counter) plus a final quiescent scrape and probe must be linearizable against
//! `RefTracker`, where a cleaning pass and a multi-torrent scrape are sets of per-torrent
//! effects; shuttle's deadlock report is a violation. Decides: C04.
use crate::core::*;
use crate::prng::Prng;
use aquatic_common::access_list::AccessListArcSwap;
use aquatic_common::{CanonicalSocketAddr, SecondsSinceServerStart, ValidUntil};
use aquatic_udp::common::{CachePaddedArc, IpVersionStatistics, SwarmWorkerStatistics};
use aquatic_udp::config::Config;
use aquatic_udp::swarm::TorrentMaps;
use aquatic_udp_protocol::*;
use rand::rngs::SmallRng;
use rand::SeedableRng;
use serde::{Deserialize, Serialize};
use std::collections::{BTreeMap, BTreeSet, HashSet};
use std::net::{IpAddr, Ipv4Addr, SocketAddr};
use std::num::NonZeroU16;
use std::sync::atomic::{AtomicU64, Ordering};
use std::sync::{Arc, Mutex};

#[derive(Clone, Debug, Serialize, Deserialize, PartialEq)]
pub enum Op {
    /// announce on torrent `t` from host `h`; `dl` = the entry's deadline (whole seconds)
    Ann { t: u8, h: u8, stop: bool, seeder: bool, dl: u32 },
    Scr { ts: Vec<u8> },
    Clean { now: u32 },
}

#[derive(Clone, Debug, Serialize, Deserialize)]
pub struct Sched {
    /// 0 = PCT, 1 = uniform random
    pub kind: u8,
    pub seed: u64,
    pub depth: usize,
    pub iters: usize,
}

#[derive(Clone, Debug, Serialize, Deserialize)]
pub struct Scn {
    /// executed sequentially before the threads start
    pub pre: Vec<Op>,
    pub threads: Vec<Vec<Op>>,
    pub sched: Sched,
    /// set on a reported failure: shuttle's encoded failing schedule (exact replay)
    #[serde(default)]
    pub replay: Option<String>,
    /// torrents on the access list (deny mode): a cleaning pass drops all their peers and the torrent itself
    #[serde(default)]
    pub forbid: Vec<u8>,
}

/// torrents 0 and 1 share a shard (first byte % 16), torrent 2 lives in another
pub fn info_hash(t: u8) -> [u8; 20] {
    let mut h = [3u8; 20];
    h[0] = match t % 3 {
        0 => 0,
        1 => 16,
        _ => 1,
    };
    h[1] = t;
    h
}

type Key = u8;

#[derive(Clone, Debug)]
enum Rk {
    Ann { t: u8, h: Key, stop: bool, seeder: bool, dl: u32, res: (i32, i32, Vec<Key>) },
    ScrT { t: u8, res: (i32, i32) },
    /// one torrent's share of cleaning pass `c`; `rep_peers` = the peer total that pass reported (statistics), which must
    /// equal the sum over its three torrents of the peers left at the instant each was cleaned
    CleanT { t: u8, now: u32, forbidden: bool, c: u8, rep_peers: u32 },
}

#[derive(Clone, Debug)]
struct Rec {
    inv: u64,
    ret: u64,
    k: Rk,
}

type MState = BTreeMap<u8, Vec<(Key, bool, u32)>>;

/// per cleaning pass: (torrents applied so far, peers left in them at their instants)
type Acc = Vec<(u8, u32)>;

fn apply(st: &mut MState, acc: &mut Acc, k: &Rk) -> bool {
    match k {
        Rk::Ann { t, h, stop, seeder, dl, res } => {
            let l = st.entry(*t).or_default();
            l.retain(|(k, _, _)| k != h);
            let s = l.iter().filter(|(_, s, _)| *s).count() as i32;
            let le = l.len() as i32 - s;
            let mut cands: Vec<Key> = l.iter().map(|(k, _, _)| *k).collect();
            cands.sort();
            if !*stop {
                l.push((*h, *seeder, *dl));
            }
            if l.is_empty() {
                st.remove(t);
            }
            res.0 == s && res.1 == le && res.2 == cands
        }
        Rk::ScrT { t, res } => {
            let (s, l) = match st.get(t) {
                Some(l) => {
                    let s = l.iter().filter(|(_, s, _)| *s).count() as i32;
                    (s, l.len() as i32 - s)
                }
                None => (0, 0),
            };
            res.0 == s && res.1 == l
        }
        Rk::CleanT { t, now, forbidden, c, rep_peers } => {
            if *forbidden {
                st.remove(t);
            }
            if let Some(l) = st.get_mut(t) {
                l.retain(|(_, _, dl)| *dl > *now);
                if l.is_empty() {
                    st.remove(t);
                }
            }
            // C20 under concurrency: the pass's reported peer total is the sum of what it left in each torrent
            let left = st.get(t).map_or(0, |l| l.len()) as u32;
            while acc.len() <= *c as usize {
                acc.push((0, 0));
            }
            let a = &mut acc[*c as usize];
            a.0 += 1;
            a.1 += left;
            a.0 < 3 || a.1 == *rep_peers
        }
    }
}

fn state_hash(st: &MState) -> u64 {
    let mut h: u64 = 0xcbf29ce484222325;
    for (t, l) in st {
        h = (h ^ *t as u64).wrapping_mul(0x100000001b3);
        let mut v: Vec<_> = l.clone();
        v.sort();
        for (k, s, d) in v {
            h = (h ^ (k as u64 | (s as u64) << 8 | (d as u64) << 16)).wrapping_mul(0x100000001b3).rotate_left(5);
        }
    }
    h
}

/// WGL-style search for a linearization. Returns true if one exists.
fn linearizable(recs: &[Rec]) -> bool {
    fn go(recs: &[Rec], done: u128, st: &MState, acc: &Acc, memo: &mut HashSet<(u128, u64)>, budget: &mut u64) -> bool {
        if done.count_ones() as usize == recs.len() {
            return true;
        }
        if *budget == 0 {
            return true; // search budget exhausted: never report on an undecided history
        }
        *budget -= 1;
        let mut sh = state_hash(st);
        for (n, p) in acc {
            sh = (sh ^ (*n as u64 | (*p as u64) << 8)).wrapping_mul(0x100000001b3).rotate_left(7);
        }
        if !memo.insert((done, sh)) {
            return false;
        }
        // an operation may be next if no other pending operation returned before it was invoked
        let min_ret = recs.iter().enumerate().filter(|(i, _)| done & (1u128 << i) == 0).map(|(_, r)| r.ret).min().unwrap();
        for (i, r) in recs.iter().enumerate() {
            if done & (1u128 << i) != 0 || r.inv > min_ret {
                continue;
            }
            let mut st2 = st.clone();
            let mut acc2 = acc.clone();
            if apply(&mut st2, &mut acc2, &r.k) && go(recs, done | (1u128 << i), &st2, &acc2, memo, budget) {
                return true;
            }
        }
        false
    }
    if recs.len() > 120 {
        return true;
    }
    let mut memo = HashSet::new();
    let mut budget = 2_000_000u64;
    go(recs, 0, &MState::new(), &Acc::new(), &mut memo, &mut budget)
}

static CLOCK: AtomicU64 = AtomicU64::new(0);
fn tick() -> u64 {
    CLOCK.fetch_add(1, Ordering::SeqCst) + 1
}
static SIGS: Mutex<BTreeSet<u64>> = Mutex::new(BTreeSet::new());
static PARKED_IN_GAP: AtomicU64 = AtomicU64::new(0);

struct World {
    maps: TorrentMaps,
    config: Config,
    stats: CachePaddedArc<IpVersionStatistics<SwarmWorkerStatistics>>,
    tx: crossbeam_channel::Sender<aquatic_udp::common::StatisticsMessage>,
    access: Arc<AccessListArcSwap>,
    forbid: Vec<u8>,
    hist: Mutex<Vec<Rec>>,
    cleans: AtomicU64,
}

fn do_op(w: &World, op: &Op, rng: &mut SmallRng) {
    match op {
        Op::Ann { t, h, stop, seeder, dl } => {
            let req = AnnounceRequest {
                connection_id: ConnectionId::new(0),
                action_placeholder: Default::default(),
                transaction_id: TransactionId::new(1),
                info_hash: InfoHash(info_hash(*t)),
                peer_id: PeerId([*h; 20]),
                bytes_downloaded: NumberOfBytes::new(0),
                bytes_left: NumberOfBytes::new(if *seeder { 0 } else { 1 }),
                bytes_uploaded: NumberOfBytes::new(0),
                event: if *stop { AnnounceEvent::Stopped } else { AnnounceEvent::Started },
                ip_address: Ipv4AddrBytes([0; 4]),
                key: PeerKey::new(0),
                peers_wanted: NumberOfPeers::new(0),
                port: Port::new(NonZeroU16::new(7000).unwrap()),
            };
            let src = CanonicalSocketAddr::new(SocketAddr::new(IpAddr::V4(Ipv4Addr::new(10, 0, 0, *h)), 5000));
            let vu = ValidUntil::new_raw(SecondsSinceServerStart::new_raw(*dl));
            let inv = tick();
            let resp = w.maps.announce(&w.config, &w.tx, rng, &req, src, vu);
            let ret = tick();
            let res = match resp {
                Response::AnnounceIpv4(r) => {
                    let mut p: Vec<Key> = r.peers.iter().map(|p| p.ip_address.0[3]).collect();
                    p.sort();
                    (r.fixed.seeders.0.get(), r.fixed.leechers.0.get(), p)
                }
                _ => (-1, -1, vec![]),
            };
            w.hist.lock().unwrap().push(Rec { inv, ret, k: Rk::Ann { t: *t, h: *h, stop: *stop, seeder: *seeder, dl: *dl, res } });
        }
        Op::Scr { ts } => {
            let req = ScrapeRequest { connection_id: ConnectionId::new(0), transaction_id: TransactionId::new(1), info_hashes: ts.iter().map(|t| InfoHash(info_hash(*t))).collect() };
            let src = CanonicalSocketAddr::new(SocketAddr::new(IpAddr::V4(Ipv4Addr::new(10, 0, 0, 200)), 5000));
            let inv = tick();
            let resp = w.maps.scrape(req, src);
            let ret = tick();
            let mut h = w.hist.lock().unwrap();
            for (t, s) in ts.iter().zip(resp.torrent_stats.iter()) {
                h.push(Rec { inv, ret, k: Rk::ScrT { t: *t, res: (s.seeders.0.get(), s.leechers.0.get()) } });
            }
        }
        Op::Clean { now } => {
            // statistics of its own per pass: concurrent passes would overwrite each other's totals in a shared one
            let st: CachePaddedArc<IpVersionStatistics<SwarmWorkerStatistics>> = Default::default();
            let c = w.cleans.fetch_add(1, Ordering::SeqCst) as u8;
            let inv = tick();
            w.maps.clean_and_update_statistics(&w.config, &st, &w.tx, &w.access, SecondsSinceServerStart::new_raw(*now), false);
            let ret = tick();
            let rep_peers = st.ipv4.peers.load(Ordering::Relaxed) as u32;
            let mut h = w.hist.lock().unwrap();
            for t in 0..3u8 {
                h.push(Rec { inv, ret, k: Rk::CleanT { t, now: *now, forbidden: w.forbid.contains(&t), c, rep_peers } });
            }
        }
    }
}

/// One execution of the program under whatever schedule shuttle imposes.
fn scenario_body(scn: &Scn) {
    CLOCK.store(0, Ordering::SeqCst);
    aquatic_verif_rt::sync::SIG.store(0, Ordering::Relaxed);
    foldhash::verif_reset_seed_counter();
    let (tx, _rx) = crossbeam_channel::unbounded();
    let mut config = Config::default();
    config.protocol.max_response_peers = 1000;
    // totals are only stored into the statistics object when statistics are active
    config.statistics.interval = 5;
    config.statistics.write_html_to_file = true;
    let mut list = aquatic_common::access_list::AccessList::default();
    if !scn.forbid.is_empty() {
        config.access_list.mode = aquatic_common::access_list::AccessListMode::Deny;
        for t in &scn.forbid {
            let hex: String = info_hash(*t).iter().map(|b| format!("{:02x}", b)).collect();
            list.insert_from_line(&hex).unwrap();
        }
    }
    let access: Arc<AccessListArcSwap> = Arc::new(arc_swap::ArcSwap::from_pointee(list));
    let w = Arc::new(World { maps: TorrentMaps::default(), config, stats: Default::default(), tx, access, forbid: scn.forbid.clone(), hist: Mutex::new(Vec::new()), cleans: AtomicU64::new(0) });
    let mut rng = SmallRng::seed_from_u64(7);
    for op in &scn.pre {
        do_op(&w, op, &mut rng);
    }
    let mut hs = Vec::new();
    for (i, ops) in scn.threads.iter().enumerate() {
        let w2 = w.clone();
        let ops = ops.clone();
        hs.push(shuttle::thread::spawn(move || {
            let mut rng = SmallRng::seed_from_u64(100 + i as u64);
            for op in &ops {
                do_op(&w2, op, &mut rng);
            }
        }));
    }
    for h in hs {
        h.join().unwrap();
    }
    // quiescent sweep: scrape everything, then a fresh peer announces and stops on each torrent
    do_op(&w, &Op::Scr { ts: vec![0, 1, 2] }, &mut rng);
    for t in 0..3u8 {
        do_op(&w, &Op::Ann { t, h: 250, stop: false, seeder: false, dl: u32::MAX }, &mut rng);
        do_op(&w, &Op::Ann { t, h: 250, stop: true, seeder: false, dl: u32::MAX }, &mut rng);
    }
    let sig = aquatic_verif_rt::sync::SIG.load(Ordering::Relaxed);
    SIGS.lock().unwrap().insert(sig);
    let hist = w.hist.lock().unwrap().clone();
    if !linearizable(&hist) {
        let mut lines = Vec::new();
        for r in &hist {
            lines.push(format!("[{}..{}] {:?}", r.inv, r.ret, r.k));
        }
        panic!("VERIF|not-linearizable|no sequential order of the operations explains the replies and the final state: {}", lines.join("; "));
    }
}

pub struct UdpConc;

thread_local! {
    static LAST_SCHEDULE: std::cell::RefCell<Option<String>> = const { std::cell::RefCell::new(None) };
}

fn sched_dir() -> std::path::PathBuf {
    let base = if std::path::Path::new("/dev/shm").is_dir() { std::path::PathBuf::from("/dev/shm") } else { std::env::temp_dir() };
    let d = base.join(format!("aquatic-verif-conc-{}", std::process::id()));
    let _ = std::fs::create_dir_all(&d);
    d
}

fn classify(msg: &str) -> (String, String, String) {
    if let Some(rest) = msg.strip_prefix("VERIF|") {
        let mut it = rest.splitn(2, '|');
        let check = it.next().unwrap_or("unknown").to_string();
        let detail = it.next().unwrap_or("").to_string();
        (check.clone(), check, detail)
    } else if msg.contains("deadlock") {
        ("deadlock-free".into(), "deadlock".into(), format!("shuttle reports a deadlock: {}", msg))
    } else if msg.contains("exceeded max_steps") {
        ("harness-step-bound".into(), "step-bound".into(), msg.to_string())
    } else {
        ("no-panic".into(), "panic".into(), format!("a worker thread panicked: {}", msg))
    }
}

impl Harness for UdpConc {
    type Scn = Scn;
    const NAME: &'static str = "udp_conc";
    const MINIMISE_BUDGET: u64 = 120;

    fn generate(seed: u64, tier: Tier, _prop: &str) -> Scn {
        let mut r = Prng::stream(seed, "scenario");
        let now: u32 = 100;
        let dl = |r: &mut Prng| -> u32 {
            match r.below(4) {
                0 => now - 1,
                1 => now,
                2 => now + 1,
                _ => now + 50,
            }
        };
        let mut pre = Vec::new();
        for _ in 0..r.below(5) {
            pre.push(Op::Ann { t: r.below(3) as u8, h: r.below(5) as u8, stop: false, seeder: r.chance(300), dl: dl(&mut r) });
        }
        // thorough tier: a share of larger "stress" programs (4 threads, up to 5 operations each)
        let stress = tier == Tier::Thorough && r.chance(300);
        let n_threads = if stress { 4 } else { r.range(2, 4) as usize };
        let max_total = if stress { 20 } else { 10 };
        let mut threads: Vec<Vec<Op>> = Vec::new();
        let mut total = 0;
        // one thread cleans in most programs: the interesting races are announce vs. clean
        let cleaner = if r.chance(850) { Some(r.below(n_threads as u64) as usize) } else { None };
        for i in 0..n_threads {
            let n_ops = if stress { r.range(3, 5) } else { r.range(1, 3) } as usize;
            let mut ops = Vec::new();
            for j in 0..n_ops {
                if total >= max_total {
                    break;
                }
                total += 1;
                if Some(i) == cleaner && j == 0 {
                    ops.push(Op::Clean { now });
                    continue;
                }
                ops.push(match r.weighted(&[60, 25, 15]) {
                    0 => Op::Ann { t: r.below(3) as u8, h: r.below(5) as u8, stop: r.chance(200), seeder: r.chance(300), dl: dl(&mut r) },
                    1 => {
                        let n = r.range(1, 3) as usize;
                        Op::Scr { ts: (0..n).map(|_| r.below(3) as u8).collect() }
                    }
                    _ => Op::Clean { now },
                });
            }
            if ops.is_empty() {
                ops.push(Op::Scr { ts: vec![0] });
            }
            threads.push(ops);
        }
        let iters = match tier {
            Tier::Quick => 1500,
            Tier::Thorough => if stress { 4000 } else { 10000 },
        };
        let kind = if r.chance(800) { 0 } else { 1 };
        let sched = Sched { kind, seed: r.next_u64(), depth: r.range(1, 4) as usize, iters };
        // a third of the programs run in deny mode with some of the torrents on the list
        let forbid: Vec<u8> = if r.chance(330) { (0..3u8).filter(|_| r.chance(500)).collect() } else { vec![] };
        // The socket workers never pass on an announce for a torrent the list in force forbids, so the threads do not
        // announce on those (the peers stored before the list changed are what `pre` creates): such an operation
        // becomes a scrape of that torrent.
        let mut threads = threads;
        for ops in threads.iter_mut() {
            for op in ops.iter_mut() {
                if let Op::Ann { t, .. } = op {
                    if forbid.contains(t) {
                        *op = Op::Scr { ts: vec![*t] };
                    }
                }
            }
        }
        Scn { pre, threads, sched, replay: None, forbid }
    }

    fn execute(scn: &Scn, _prop: &str, stats: &mut Stats) -> Outcome {
        let dir = sched_dir();
        if let Ok(rd) = std::fs::read_dir(&dir) {
            for e in rd.flatten() {
                let _ = std::fs::remove_file(e.path());
            }
        }
        SIGS.lock().unwrap().clear();
        let mut cfg = shuttle::Config::new();
        cfg.stack_size = 0x40000;
        cfg.failure_persistence = shuttle::FailurePersistence::File(Some(dir.clone()));
        cfg.max_steps = shuttle::MaxSteps::FailAfter(200_000);
        let scn2 = scn.clone();
        let body = move || scenario_body(&scn2);
        let sched = scn.sched.clone();
        let replay = scn.replay.clone();
        // shuttle keeps per-thread state about the last persisted schedule: run every execution on
        // a fresh OS thread so that each failure is persisted
        let res: Result<usize, String> = std::thread::Builder::new()
            .stack_size(16 << 20)
            .spawn(move || {
                catch(move || match replay {
                    Some(s) => {
                        shuttle::replay(body, &s);
                        1usize
                    }
                    None => {
                        if sched.kind == 0 {
                            shuttle::Runner::new(shuttle::scheduler::PctScheduler::new_from_seed(sched.seed, sched.depth.max(1), sched.iters), cfg).run(body)
                        } else {
                            shuttle::Runner::new(shuttle::scheduler::RandomScheduler::new_from_seed(sched.seed, sched.iters), cfg).run(body)
                        }
                    }
                })
            })
            .unwrap()
            .join()
            .unwrap_or_else(|_| Err("harness thread died".to_string()));
        let sigs = std::mem::take(&mut *SIGS.lock().unwrap());
        let prog_hash = {
            let mut s = scn.clone();
            s.replay = None;
            s.sched.seed = 0;
            hash_json(&(s.pre, s.threads))
        };
        stats.evaluations += sigs.len().max(1) as u64;
        stats.probe_n("schedules-executed", match &res {
            Ok(n) => *n as u64,
            Err(_) => sigs.len() as u64 + 1,
        });
        for s in &sigs {
            stats.signatures.insert(s ^ prog_hash);
        }
        stats.probe_n("lock-operations", aquatic_verif_rt::sync::LOCK_OPS.swap(0, Ordering::Relaxed));
        stats.probe_n("lock-acquisitions-that-blocked", aquatic_verif_rt::sync::BLOCKED.swap(0, Ordering::Relaxed));
        stats.probe_n("lock-upgrades", aquatic_verif_rt::sync::UPGRADES.swap(0, Ordering::Relaxed));
        let _ = PARKED_IN_GAP.load(Ordering::Relaxed);
        match res {
            Ok(_) => Outcome { violations: vec![], fingerprint: 0, signature: Some(prog_hash) },
            Err(msg) => {
                // panic message comes as "<msg> @ <location>"
                let m = msg.rsplitn(2, " @ ").last().unwrap_or(&msg).to_string();
                let (check, sig, detail) = classify(&m);
                let schedule = std::fs::read_dir(&dir).ok().and_then(|rd| rd.flatten().next()).and_then(|e| std::fs::read_to_string(e.path()).ok());
                let fp = crate::prng::hash_str(&format!("{}|{}", check, schedule.clone().unwrap_or_default()));
                LAST_SCHEDULE.with(|l| *l.borrow_mut() = schedule);
                if check == "harness-step-bound" {
                    // not a verdict about the property: report as harness noise, not as a violation
                    stats.probe("step-bound-exceeded");
                    return Outcome { violations: vec![], fingerprint: fp, signature: None };
                }
                Outcome { violations: vec![Violation::new("C04", &check, &sig, detail)], fingerprint: fp, signature: Some(prog_hash) }
            }
        }
    }

    fn finalize(scn: &mut Scn, prop: &str, target: &Violation) {
        let mut scratch = Stats::default();
        let out = Self::execute(scn, prop, &mut scratch);
        if out.violations.iter().any(|v| v.check == target.check) {
            scn.replay = LAST_SCHEDULE.with(|l| l.borrow().clone());
        }
    }

    fn size(scn: &Scn) -> usize {
        scn.pre.len() + scn.threads.iter().map(|t| t.len()).sum::<usize>()
    }

    fn shrink(scn: &Scn) -> Vec<Scn> {
        let mut out = Vec::new();
        // drop a whole thread
        if scn.threads.len() > 2 {
            for i in 0..scn.threads.len() {
                let mut s = scn.clone();
                s.threads.remove(i);
                out.push(s);
            }
        }
        // drop single operations
        for i in 0..scn.threads.len() {
            for j in 0..scn.threads[i].len() {
                if scn.threads[i].len() > 1 {
                    let mut s = scn.clone();
                    s.threads[i].remove(j);
                    out.push(s);
                }
            }
        }
        for i in 0..scn.pre.len() {
            let mut s = scn.clone();
            s.pre.remove(i);
            out.push(s);
        }
        // shorter scrapes
        for i in 0..scn.threads.len() {
            for j in 0..scn.threads[i].len() {
                if let Op::Scr { ts } = &scn.threads[i][j] {
                    if ts.len() > 1 {
                        let mut s = scn.clone();
                        s.threads[i][j] = Op::Scr { ts: ts[..1].to_vec() };
                        out.push(s);
                    }
                }
            }
        }
        out
    }

    fn sample(scn: &Scn) -> serde_json::Value {
        serde_json::json!({"pre": scn.pre, "threads": scn.threads, "sched": scn.sched})
    }
}
