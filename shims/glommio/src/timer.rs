use crate::{GlommioError, Result, TaskQueueHandle};
use aquatic_verif_rt::{engine, fault};
use std::future::Future;
use std::pin::Pin;
use std::task::{Context, Poll};
use std::time::Duration;

pub struct Sleep {
    deadline: u64,
}
pub fn sleep(d: Duration) -> Sleep {
    Sleep { deadline: engine::now().saturating_add(d.as_nanos() as u64) }
}
impl Future for Sleep {
    type Output = ();
    fn poll(self: Pin<&mut Self>, c: &mut Context<'_>) -> Poll<()> {
        if engine::now() >= self.deadline {
            return Poll::Ready(());
        }
        let ex = crate::exec();
        let s = ex.timer_seq.get();
        ex.timer_seq.set(s + 1);
        ex.timers.borrow_mut().insert((self.deadline, s), c.waker().clone());
        Poll::Pending
    }
}

/// `repeat` runs the action immediately, then again after each returned period, and keeps
/// running when the handle is dropped (glommio 0.9.0: the handle only offers `destroy`).
pub struct TimerActionRepeat;
impl TimerActionRepeat {
    pub fn repeat<G, F>(g: G) -> TimerActionRepeat
    where
        G: Fn() -> F + 'static,
        F: Future<Output = Option<Duration>> + 'static,
    {
        Self::repeat_into(g, TaskQueueHandle(0)).unwrap()
    }
    pub fn repeat_into<G, F>(g: G, _tq: TaskQueueHandle) -> Result<TimerActionRepeat>
    where
        G: Fn() -> F + 'static,
        F: Future<Output = Option<Duration>> + 'static,
    {
        crate::spawn_local(async move {
            loop {
                fault::seam_point("timer-action");
                engine::log("timer-action", 0, 0);
                match g().await {
                    Some(p) => sleep(p).await,
                    None => break,
                }
            }
        })
        .detach();
        Ok(TimerActionRepeat)
    }
}

/// Resolves to `TimedOut` at the deadline and drops the inner future.
pub async fn timeout<F, T>(dur: Duration, f: F) -> Result<T>
where
    F: Future<Output = Result<T>>,
{
    struct T2<F> {
        f: Option<Pin<Box<F>>>,
        s: Sleep,
        dur: Duration,
    }
    impl<F: Future<Output = Result<T>>, T> Future for T2<F> {
        type Output = Result<T>;
        fn poll(mut self: Pin<&mut Self>, c: &mut Context<'_>) -> Poll<Result<T>> {
            let this = &mut *self;
            if let Some(f) = this.f.as_mut() {
                if let Poll::Ready(v) = f.as_mut().poll(c) {
                    return Poll::Ready(v);
                }
            }
            if Pin::new(&mut this.s).poll(c).is_ready() {
                this.f = None;
                return Poll::Ready(Err(GlommioError::TimedOut(this.dur)));
            }
            Poll::Pending
        }
    }
    T2 { f: Some(Box::pin(f)), s: sleep(dur), dur }.await
}
