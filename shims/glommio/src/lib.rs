//! Simulation stand-in for glommio 0.9.0 (API subset used by aquatic_http / aquatic_ws).
//! Each executor is one engine thread; tasks are polled one at a time in an order drawn
//! from the run's scheduler stream; every task poll is followed by a scheduling point.
//! Semantics transcribed from the glommio 0.9.0 sources are listed in /verif/DESIGN.md 2.2.
use std::cell::{Cell, RefCell};
use std::collections::BTreeMap;
use std::future::Future;
use std::pin::Pin;
use std::rc::Rc;
use std::sync::{Arc, Mutex};
use std::task::{Context, Poll, Wake, Waker};
use std::time::Duration;

use aquatic_verif_rt::{engine, fault};

pub mod channels {
    pub mod channel_mesh;
    pub mod local_channel;
    pub mod shared_channel;
}
pub mod net;
pub mod timer;

#[derive(Debug)]
pub enum ResourceType<T> {
    Channel(T),
    Other,
}
#[derive(Debug)]
pub enum GlommioError<T> {
    Closed(ResourceType<T>),
    WouldBlock(ResourceType<T>),
    TimedOut(Duration),
    IoError(std::io::Error),
}
impl<T> std::fmt::Display for GlommioError<T> {
    fn fmt(&self, f: &mut std::fmt::Formatter<'_>) -> std::fmt::Result {
        match self {
            Self::Closed(_) => write!(f, "closed"),
            Self::WouldBlock(_) => write!(f, "would block"),
            Self::TimedOut(d) => write!(f, "timed out after {:?}", d),
            Self::IoError(e) => write!(f, "io: {}", e),
        }
    }
}
impl<T: std::fmt::Debug> std::error::Error for GlommioError<T> {}
impl<T> From<std::io::Error> for GlommioError<T> {
    fn from(e: std::io::Error) -> Self {
        GlommioError::IoError(e)
    }
}
pub type Result<T, V = ()> = std::result::Result<T, GlommioError<V>>;

#[derive(Clone, Copy, Debug)]
pub enum Shares {
    Static(usize),
}
#[derive(Clone, Copy, Debug)]
pub enum Latency {
    Matters(Duration),
    NotImportant,
}
#[derive(Clone, Copy, Debug)]
pub struct TaskQueueHandle(usize);

// ---------------------------------------------------------------- executor

pub(crate) struct ExecShared {
    ready: Mutex<Vec<usize>>,
    tid: engine::Tid,
}
struct TaskWaker {
    shared: Arc<ExecShared>,
    id: usize,
}
impl Wake for TaskWaker {
    fn wake(self: Arc<Self>) {
        self.wake_by_ref()
    }
    fn wake_by_ref(self: &Arc<Self>) {
        let pushed = {
            let mut r = self.shared.ready.lock().unwrap();
            if !r.contains(&self.id) {
                r.push(self.id);
                true
            } else {
                false
            }
        };
        if engine::active() {
            engine::log("task-wake", self.id as u64, pushed as u64);
        }
        engine::wake(self.shared.tid);
    }
}
struct Slot {
    fut: Option<Pin<Box<dyn Future<Output = ()>>>>,
    cancel: Rc<Cell<bool>>,
}
pub(crate) struct Exec {
    shared: Arc<ExecShared>,
    tasks: RefCell<Vec<Option<Slot>>>,
    pub(crate) timers: RefCell<BTreeMap<(u64, u64), Waker>>,
    pub(crate) timer_seq: Cell<u64>,
    pub(crate) id: usize,
    polls: Cell<u64>,
}
thread_local! {
    static EXEC: RefCell<Option<Rc<Exec>>> = const { RefCell::new(None) };
}
pub(crate) fn exec() -> Rc<Exec> {
    EXEC.with(|e| e.borrow().clone().expect("not inside a glommio executor"))
}
pub(crate) fn try_exec() -> Option<Rc<Exec>> {
    EXEC.with(|e| e.borrow().clone())
}

#[derive(Default)]
pub struct LocalExecutorBuilder;
pub struct LocalExecutor {
    id: usize,
}
static NEXT_EXEC_ID: std::sync::atomic::AtomicUsize = std::sync::atomic::AtomicUsize::new(1);

/// Reset the executor id counter (start of a simulated run).
pub fn sim_reset() {
    NEXT_EXEC_ID.store(1, std::sync::atomic::Ordering::SeqCst);
    LOCAL_FULL.store(0, std::sync::atomic::Ordering::SeqCst);
}
/// `try_send` calls on a local channel that found it full since the last reset (reach measure)
pub(crate) static LOCAL_FULL: std::sync::atomic::AtomicU64 = std::sync::atomic::AtomicU64::new(0);
pub fn sim_local_full_count() -> u64 {
    LOCAL_FULL.load(std::sync::atomic::Ordering::SeqCst)
}

impl LocalExecutorBuilder {
    pub fn make(self) -> Result<LocalExecutor> {
        fault::seam_point("executor-make");
        Ok(LocalExecutor { id: NEXT_EXEC_ID.fetch_add(1, std::sync::atomic::Ordering::SeqCst) })
    }
    pub fn name(self, _n: &str) -> Self {
        self
    }
}

impl LocalExecutor {
    pub fn id(&self) -> usize {
        self.id
    }
    pub fn run<T>(&self, fut: impl Future<Output = T>) -> T {
        let tid = engine::my_tid();
        // futures_lite::future::race (used by the trackers) flips a fastrand coin: seed the
        // thread-local generator from the run's entropy stream so that the coin is replayable
        let mut seed = [0u8; 8];
        aquatic_verif_rt::rng::fill(&mut seed);
        fastrand::seed(u64::from_le_bytes(seed));
        let ex = Rc::new(Exec {
            shared: Arc::new(ExecShared { ready: Mutex::new(vec![0]), tid }),
            tasks: RefCell::new(vec![None]),
            timers: RefCell::new(BTreeMap::new()),
            timer_seq: Cell::new(0),
            id: self.id,
            polls: Cell::new(0),
        });
        EXEC.with(|e| *e.borrow_mut() = Some(ex.clone()));
        struct Reset;
        impl Drop for Reset {
            fn drop(&mut self) {
                // LocalExecutor::run returns when the root future completes and drops what is left
                let ex = EXEC.with(|e| e.borrow_mut().take());
                if let Some(ex) = ex {
                    loop {
                        let t: Vec<_> = match ex.tasks.try_borrow_mut() {
                            Ok(mut t) => t.drain(..).collect(),
                            Err(_) => break,
                        };
                        if t.is_empty() {
                            break;
                        }
                        drop(t);
                    }
                    ex.timers.borrow_mut().clear();
                }
            }
        }
        let _reset = Reset;
        let mut root = std::pin::pin!(fut);
        let root_waker: Waker = Arc::new(TaskWaker { shared: ex.shared.clone(), id: 0 }).into();
        let mut local_ready: Vec<usize> = Vec::new();
        loop {
            // expire due timers
            let now = engine::now();
            loop {
                let k = {
                    let t = ex.timers.borrow();
                    t.keys().next().copied()
                };
                match k {
                    Some(k) if k.0 <= now => {
                        let w = ex.timers.borrow_mut().remove(&k).unwrap();
                        w.wake();
                    }
                    _ => break,
                }
            }
            {
                let mut r = ex.shared.ready.lock().unwrap();
                for id in r.drain(..) {
                    if !local_ready.contains(&id) {
                        local_ready.push(id);
                    }
                }
            }
            if local_ready.is_empty() {
                let timeout = {
                    let t = ex.timers.borrow();
                    t.keys().next().map(|k| k.0.saturating_sub(engine::now()).max(1))
                };
                fault::seam_point("executor-idle");
                engine::block(timeout, "executor-idle");
                continue;
            }
            local_ready.sort_unstable();
            let pick = engine::sched_rand(local_ready.len() as u64) as usize;
            let mask = local_ready.iter().fold(0u64, |m, i| m | (1u64 << (*i % 64)));
            engine::log("exec-pick", mask, pick as u64);
            let id = local_ready.remove(pick);
            ex.polls.set(ex.polls.get() + 1);
            if id == 0 {
                engine::log("poll-root", ex.id as u64, 0);
                if let Poll::Ready(v) = root.as_mut().poll(&mut Context::from_waker(&root_waker)) {
                    return v;
                }
            } else {
                let taken = {
                    let mut t = ex.tasks.borrow_mut();
                    match t.get_mut(id).and_then(|s| s.as_mut()) {
                        Some(s) if s.cancel.get() => {
                            let s = t[id].take();
                            Some((None, s))
                        }
                        Some(s) => Some((s.fut.take(), None)),
                        None => None,
                    }
                };
                match taken {
                    Some((Some(mut f), _)) => {
                        engine::log("poll-task", ex.id as u64, id as u64);
                        fault::seam_point("task-poll");
                        let w: Waker = Arc::new(TaskWaker { shared: ex.shared.clone(), id }).into();
                        let done = f.as_mut().poll(&mut Context::from_waker(&w)).is_ready();
                        let mut t = ex.tasks.borrow_mut();
                        if done {
                            t[id] = None;
                            drop(t);
                            drop(f);
                        } else if let Some(s) = t[id].as_mut() {
                            if s.cancel.get() {
                                t[id] = None;
                                drop(t);
                                drop(f);
                            } else {
                                s.fut = Some(f);
                            }
                        }
                    }
                    Some((None, s)) => drop(s),
                    None => {}
                }
            }
            engine::yield_now();
        }
    }
}

pub struct ExecutorProxy;
pub fn executor() -> ExecutorProxy {
    ExecutorProxy
}
impl ExecutorProxy {
    pub fn create_task_queue(&self, _s: Shares, _l: Latency, _n: &str) -> TaskQueueHandle {
        TaskQueueHandle(0)
    }
    pub fn id(&self) -> usize {
        exec().id
    }
}

struct JoinState<T> {
    result: Option<T>,
    done: bool,
    waiter: Option<Waker>,
}
/// Dropping a `Task` cancels it; `detach()` lets it run to completion.
pub struct Task<T> {
    st: Rc<RefCell<JoinState<T>>>,
    cancel: Rc<Cell<bool>>,
    id: usize,
    detached: bool,
}
pub struct JoinHandle<T> {
    st: Rc<RefCell<JoinState<T>>>,
    cancel: Rc<Cell<bool>>,
    id: usize,
}
impl<T> Task<T> {
    pub fn detach(mut self) -> JoinHandle<T> {
        self.detached = true;
        JoinHandle { st: self.st.clone(), cancel: self.cancel.clone(), id: self.id }
    }
}
fn cancel_task<T>(st: &Rc<RefCell<JoinState<T>>>, cancel: &Rc<Cell<bool>>, id: usize) {
    if st.borrow().done {
        return;
    }
    cancel.set(true);
    if let Some(ex) = try_exec() {
        let s = if let Ok(mut t) = ex.tasks.try_borrow_mut() {
            match t.get_mut(id) {
                Some(slot) if slot.as_ref().map_or(false, |s| s.fut.is_some()) => slot.take(),
                _ => None,
            }
        } else {
            None
        };
        drop(s);
    }
    let w = {
        let mut st = st.borrow_mut();
        st.done = true;
        st.waiter.take()
    };
    if let Some(w) = w {
        w.wake();
    }
}
impl<T> Drop for Task<T> {
    fn drop(&mut self) {
        if self.detached {
            return;
        }
        cancel_task(&self.st, &self.cancel, self.id);
    }
}
impl<T> JoinHandle<T> {
    pub fn cancel(&self) {
        cancel_task(&self.st, &self.cancel, self.id);
    }
}
impl<T> Future for Task<T> {
    type Output = T;
    fn poll(self: Pin<&mut Self>, c: &mut Context<'_>) -> Poll<T> {
        let mut s = self.st.borrow_mut();
        if let Some(v) = s.result.take() {
            Poll::Ready(v)
        } else {
            s.waiter = Some(c.waker().clone());
            Poll::Pending
        }
    }
}
impl<T> Future for JoinHandle<T> {
    type Output = Option<T>;
    fn poll(self: Pin<&mut Self>, c: &mut Context<'_>) -> Poll<Option<T>> {
        let mut s = self.st.borrow_mut();
        if s.done {
            Poll::Ready(s.result.take())
        } else {
            s.waiter = Some(c.waker().clone());
            Poll::Pending
        }
    }
}

pub fn spawn_local<T: 'static>(f: impl Future<Output = T> + 'static) -> Task<T> {
    let ex = exec();
    let st = Rc::new(RefCell::new(JoinState { result: None, done: false, waiter: None }));
    let st2 = st.clone();
    let cancel = Rc::new(Cell::new(false));
    let wrapped = async move {
        let r = f.await;
        let w = {
            let mut s = st2.borrow_mut();
            s.result = Some(r);
            s.done = true;
            s.waiter.take()
        };
        if let Some(w) = w {
            w.wake();
        }
    };
    let id = {
        let mut t = ex.tasks.borrow_mut();
        t.push(Some(Slot { fut: Some(Box::pin(wrapped)), cancel: cancel.clone() }));
        t.len() - 1
    };
    ex.shared.ready.lock().unwrap().push(id);
    Task { st, cancel, id, detached: false }
}
pub fn spawn_local_into<T: 'static>(f: impl Future<Output = T> + 'static, _tq: TaskQueueHandle) -> Result<Task<T>> {
    Ok(spawn_local(f))
}

/// Cooperative yield: the stub always yields once (an arbitrary-order superset of glommio's
/// preemption-timer behaviour).
pub async fn yield_if_needed() {
    struct Y(bool);
    impl Future for Y {
        type Output = ();
        fn poll(mut self: Pin<&mut Self>, c: &mut Context<'_>) -> Poll<()> {
            if self.0 {
                Poll::Ready(())
            } else {
                self.0 = true;
                c.waker().wake_by_ref();
                Poll::Pending
            }
        }
    }
    Y(false).await
}

pub mod prelude {
    pub use crate::{executor, spawn_local, spawn_local_into, yield_if_needed, ExecutorProxy, GlommioError, Latency, LocalExecutor, LocalExecutorBuilder, Shares, TaskQueueHandle};
}

#[macro_export]
macro_rules! enclose {
    ( ($( $x:ident ),*) $y:expr ) => {
        {
            $(let $x = $x.clone();)*
            $y
        }
    };
}
