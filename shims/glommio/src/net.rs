use crate::Result;
use aquatic_verif_rt::net::tcp::{self, Conn, ListenerState};
use std::net::{Shutdown, SocketAddr};
use std::os::unix::io::{FromRawFd, RawFd};
use std::pin::Pin;
use std::sync::{Arc, Mutex};
use std::task::{Context, Poll};

pub struct TcpListener {
    st: Arc<Mutex<ListenerState>>,
}
pub struct TcpStream {
    conn: Conn,
}
impl FromRawFd for TcpListener {
    unsafe fn from_raw_fd(_fd: RawFd) -> Self {
        panic!("real sockets are not available in the simulation")
    }
}
impl TcpListener {
    /// Simulation twin of socket creation + `from_raw_fd`.
    pub fn sim_bind(addr: SocketAddr, only_v6: bool) -> std::io::Result<Self> {
        Ok(TcpListener { st: tcp::bind(addr, only_v6)? })
    }
    pub fn incoming(&self) -> Incoming<'_> {
        Incoming { l: self }
    }
    pub fn local_addr(&self) -> Result<SocketAddr> {
        Ok(self.st.lock().unwrap().addr)
    }
}
pub struct Incoming<'a> {
    l: &'a TcpListener,
}
impl futures_lite::Stream for Incoming<'_> {
    type Item = Result<TcpStream>;
    fn poll_next(self: Pin<&mut Self>, c: &mut Context<'_>) -> Poll<Option<Self::Item>> {
        match tcp::poll_accept(&self.l.st, c) {
            Poll::Ready(Some(Ok(conn))) => Poll::Ready(Some(Ok(TcpStream { conn }))),
            Poll::Ready(Some(Err(e))) => Poll::Ready(Some(Err(e.into()))),
            Poll::Ready(None) => Poll::Ready(None),
            Poll::Pending => Poll::Pending,
        }
    }
}
impl TcpStream {
    pub fn peer_addr(&self) -> Result<SocketAddr> {
        Ok(self.conn.presented_addr)
    }
    pub async fn shutdown(&self, _how: Shutdown) -> Result<()> {
        tcp::server_close(&self.conn);
        Ok(())
    }
    pub async fn peek(&self, buf: &mut [u8]) -> Result<usize> {
        std::future::poll_fn(|c| tcp::poll_peek(&self.conn, c, buf)).await.map_err(Into::into)
    }
    pub fn sim_conn_id(&self) -> usize {
        self.conn.id
    }
}
impl Drop for TcpStream {
    fn drop(&mut self) {
        tcp::server_close(&self.conn);
    }
}
impl futures_io::AsyncRead for TcpStream {
    fn poll_read(self: Pin<&mut Self>, c: &mut Context<'_>, b: &mut [u8]) -> Poll<std::io::Result<usize>> {
        tcp::poll_read(&self.conn, c, b)
    }
}
impl futures_io::AsyncWrite for TcpStream {
    fn poll_write(self: Pin<&mut Self>, c: &mut Context<'_>, b: &[u8]) -> Poll<std::io::Result<usize>> {
        tcp::poll_write(&self.conn, c, b)
    }
    fn poll_flush(self: Pin<&mut Self>, _c: &mut Context<'_>) -> Poll<std::io::Result<()>> {
        Poll::Ready(Ok(()))
    }
    fn poll_close(self: Pin<&mut Self>, _c: &mut Context<'_>) -> Poll<std::io::Result<()>> {
        tcp::server_close(&self.conn);
        Poll::Ready(Ok(()))
    }
}
