use crate::{GlommioError, ResourceType};
use std::cell::RefCell;
use std::collections::VecDeque;
use std::rc::Rc;
use std::task::{Poll, Waker};

struct St<T> {
    q: VecDeque<T>,
    cap: usize,
    sender_alive: bool,
    receiver_alive: bool,
    recv_waker: Option<Waker>,
    send_wakers: Vec<Waker>,
}
pub struct LocalSender<T>(Rc<RefCell<St<T>>>);
pub struct LocalReceiver<T>(Rc<RefCell<St<T>>>);

pub fn new_bounded<T>(size: usize) -> (LocalSender<T>, LocalReceiver<T>) {
    let s = Rc::new(RefCell::new(St { q: VecDeque::new(), cap: size.max(1), sender_alive: true, receiver_alive: true, recv_waker: None, send_wakers: vec![] }));
    (LocalSender(s.clone()), LocalReceiver(s))
}

impl<T> LocalSender<T> {
    /// `WouldBlock` only when full, `Closed` when the receiver is gone.
    pub fn try_send(&self, item: T) -> Result<(), GlommioError<T>> {
        let r = self.try_send_inner(item);
        if let Err(GlommioError::WouldBlock(_)) = &r {
            // a caller that does not wait: the message is lost to it (reach measure)
            crate::LOCAL_FULL.fetch_add(1, std::sync::atomic::Ordering::Relaxed);
            aquatic_verif_rt::engine::log("local-channel-full", 0, 0);
        }
        r
    }
    fn try_send_inner(&self, item: T) -> Result<(), GlommioError<T>> {
        let mut s = self.0.borrow_mut();
        if !s.receiver_alive {
            return Err(GlommioError::Closed(ResourceType::Channel(item)));
        }
        if s.q.len() >= s.cap {
            return Err(GlommioError::WouldBlock(ResourceType::Channel(item)));
        }
        s.q.push_back(item);
        let w = s.recv_waker.take();
        drop(s);
        if let Some(w) = w {
            w.wake();
        }
        Ok(())
    }
    pub async fn send(&self, item: T) -> Result<(), GlommioError<T>> {
        let mut item = Some(item);
        std::future::poll_fn(|c| match self.try_send_inner(item.take().unwrap()) {
            Ok(()) => Poll::Ready(Ok(())),
            Err(GlommioError::WouldBlock(ResourceType::Channel(i))) => {
                item = Some(i);
                self.0.borrow_mut().send_wakers.push(c.waker().clone());
                Poll::Pending
            }
            Err(e) => Poll::Ready(Err(e)),
        })
        .await
    }
    pub fn is_full(&self) -> bool {
        let s = self.0.borrow();
        s.q.len() >= s.cap
    }
    pub fn len(&self) -> usize {
        self.0.borrow().q.len()
    }
}
impl<T> Drop for LocalSender<T> {
    fn drop(&mut self) {
        let w = {
            let mut s = self.0.borrow_mut();
            s.sender_alive = false;
            s.recv_waker.take()
        };
        if let Some(w) = w {
            w.wake();
        }
    }
}
impl<T> Drop for LocalReceiver<T> {
    fn drop(&mut self) {
        let ws: Vec<Waker> = {
            let mut s = self.0.borrow_mut();
            s.receiver_alive = false;
            s.send_wakers.drain(..).collect()
        };
        for w in ws {
            w.wake();
        }
    }
}
impl<T> LocalReceiver<T> {
    /// `None` once the sender is gone and the queue is empty.
    pub async fn recv(&self) -> Option<T> {
        std::future::poll_fn(|c| {
            let mut s = self.0.borrow_mut();
            if let Some(v) = s.q.pop_front() {
                let ws: Vec<Waker> = s.send_wakers.drain(..).collect();
                drop(s);
                for w in ws {
                    w.wake();
                }
                return Poll::Ready(Some(v));
            }
            if !s.sender_alive {
                return Poll::Ready(None);
            }
            s.recv_waker = Some(c.waker().clone());
            Poll::Pending
        })
        .await
    }
}
