use std::sync::{Arc, Mutex}; use std::task::{Poll, Waker};
use super::shared_channel::{new_bounded, ConnectedReceiver, ConnectedSender, SharedReceiver, SharedSender};
use crate::GlommioError;
#[derive(Clone, Copy, Debug, PartialEq)] pub enum Role { Producer, Consumer }
pub trait MeshAdapter: Clone {}
#[derive(Clone, Debug)] pub struct Partial; impl MeshAdapter for Partial {}
struct MeshSt<T: Send> { nr_peers: usize, size: usize, roles: Vec<Role>, ids: Vec<usize>, built: bool, senders: Vec<Vec<Option<SharedSender<T>>>>, receivers: Vec<Vec<Option<SharedReceiver<T>>>>, wakers: Vec<Waker> }
pub struct MeshBuilder<T: Send, A: MeshAdapter>(Arc<Mutex<MeshSt<T>>>, std::marker::PhantomData<A>);
impl<T: Send, A: MeshAdapter> Clone for MeshBuilder<T, A> { fn clone(&self) -> Self { MeshBuilder(self.0.clone(), std::marker::PhantomData) } }
pub struct Senders<T: Send> { v: Vec<ConnectedSender<T>> }
pub struct Receivers<T: Send> { v: Vec<Option<ConnectedReceiver<T>>>, consumer_id: Option<usize> }
impl<T: Send + 'static> MeshBuilder<T, Partial> {
    pub fn partial(n: usize, size: usize) -> Self { MeshBuilder(Arc::new(Mutex::new(MeshSt { nr_peers: n, size, roles: vec![], ids: vec![], built: false, senders: vec![], receivers: vec![], wakers: vec![] })), std::marker::PhantomData) }
    pub async fn join(self, role: Role) -> Result<(Senders<T>, Receivers<T>), GlommioError<()>> {
        let my_exec = crate::exec().id;
        { let mut m = self.0.lock().unwrap(); let pos = m.ids.binary_search(&my_exec).expect_err("joined twice"); m.ids.insert(pos, my_exec); m.roles.insert(pos, role);
            if m.roles.len() == m.nr_peers { // build matrix [producer][consumer]
                let prods: Vec<usize> = (0..m.nr_peers).filter(|i| m.roles[*i] == Role::Producer).collect(); let cons: Vec<usize> = (0..m.nr_peers).filter(|i| m.roles[*i] == Role::Consumer).collect();
                let size = m.size; let mut s = vec![]; let mut r: Vec<Vec<Option<SharedReceiver<T>>>> = cons.iter().map(|_| vec![]).collect();
                for _p in &prods { let mut row = vec![]; for (ci, _c) in cons.iter().enumerate() { let (tx, rx) = new_bounded(size); row.push(Some(tx)); r[ci].push(Some(rx)); } s.push(row); }
                m.senders = s; m.receivers = r; m.built = true; for w in m.wakers.drain(..) { w.wake(); } }
        }
        std::future::poll_fn(|c| { let mut m = self.0.lock().unwrap(); if m.built { Poll::Ready(()) } else { m.wakers.push(c.waker().clone()); Poll::Pending } }).await;
        let mut m = self.0.lock().unwrap();
        let my = m.ids.binary_search(&my_exec).unwrap();
        let idx_among = |m: &MeshSt<T>, role: Role| (0..my).filter(|i| m.roles[*i] == role).count();
        match role {
            Role::Producer => { let p = idx_among(&m, Role::Producer); let row: Vec<SharedSender<T>> = m.senders[p].iter_mut().map(|s| s.take().unwrap()).collect(); drop(m); let mut v = vec![]; for s in row { v.push(s.connect().await); } Ok((Senders { v }, Receivers { v: vec![], consumer_id: None })) }
            Role::Consumer => { let ci = idx_among(&m, Role::Consumer); let row: Vec<SharedReceiver<T>> = m.receivers[ci].iter_mut().map(|s| s.take().unwrap()).collect(); drop(m); let mut v = vec![]; for s in row { v.push(Some(s.connect().await)); } Ok((Senders { v: vec![] }, Receivers { v, consumer_id: Some(ci) })) }
        }
    }
}
impl<T: Send + 'static> Senders<T> { pub async fn send_to(&self, idx: usize, msg: T) -> Result<(), GlommioError<T>> { self.v[idx].send(msg).await } pub fn nr_consumers(&self) -> usize { self.v.len() } }
impl<T: Send + 'static> Receivers<T> { pub fn streams(&mut self) -> Vec<(usize, ConnectedReceiver<T>)> { self.v.iter_mut().enumerate().filter_map(|(i, r)| r.take().map(|r| (i, r))).collect() } pub fn consumer_id(&self) -> Option<usize> { self.consumer_id } }
