use crate::{GlommioError, ResourceType};
use aquatic_verif_rt::{engine, fault};
use std::collections::VecDeque;
use std::pin::Pin;
use std::sync::{Arc, Mutex};
use std::task::{Context, Poll, Waker};

pub(crate) struct Sh<T> {
    q: VecDeque<T>,
    cap: usize,
    sender_gone: bool,
    receiver_gone: bool,
    recv_waker: Option<Waker>,
    send_waker: Option<Waker>,
}
pub struct SharedSender<T: Send + Sized>(pub(crate) Arc<Mutex<Sh<T>>>);
pub struct SharedReceiver<T: Send + Sized>(pub(crate) Arc<Mutex<Sh<T>>>);
pub struct ConnectedSender<T: Send + Sized>(SharedSender<T>);
pub struct ConnectedReceiver<T: Send + Sized>(SharedReceiver<T>);

impl<T: Send + Sized> std::fmt::Debug for SharedSender<T> {
    fn fmt(&self, f: &mut std::fmt::Formatter<'_>) -> std::fmt::Result {
        write!(f, "SharedSender")
    }
}
impl<T: Send + Sized> std::fmt::Debug for SharedReceiver<T> {
    fn fmt(&self, f: &mut std::fmt::Formatter<'_>) -> std::fmt::Result {
        write!(f, "SharedReceiver")
    }
}

pub fn new_bounded<T: Send + Sized>(size: usize) -> (SharedSender<T>, SharedReceiver<T>) {
    let s = Arc::new(Mutex::new(Sh { q: VecDeque::new(), cap: size.max(1), sender_gone: false, receiver_gone: false, recv_waker: None, send_waker: None }));
    (SharedSender(s.clone()), SharedReceiver(s))
}

/// glommio's `connect` completes when the peer - usually on another executor - has connected
/// *or has been dropped*, so the calling task may be suspended here and other tasks of the same
/// executor run in between. The stub has nothing to wait for (a later `send` reports `Closed` if
/// the receiver is gone); it suspends the task once on a coin drawn from the schedule PRNG.
async fn connect_point() {
    if engine::sched_rand(3) == 0 {
        engine::log("connect-pend", 0, 0);
        crate::yield_if_needed().await;
    }
}
impl<T: Send + Sized> SharedSender<T> {
    pub async fn connect(self) -> ConnectedSender<T> {
        connect_point().await;
        ConnectedSender(self)
    }
}
impl<T: Send + Sized> SharedReceiver<T> {
    pub async fn connect(self) -> ConnectedReceiver<T> {
        connect_point().await;
        ConnectedReceiver(self)
    }
}
impl<T: Send + Sized> Drop for SharedSender<T> {
    fn drop(&mut self) {
        let w = {
            let mut s = self.0.lock().unwrap_or_else(|p| p.into_inner());
            s.sender_gone = true;
            s.recv_waker.take()
        };
        if let Some(w) = w {
            w.wake();
        }
    }
}
impl<T: Send + Sized> Drop for SharedReceiver<T> {
    fn drop(&mut self) {
        let w = {
            let mut s = self.0.lock().unwrap_or_else(|p| p.into_inner());
            s.receiver_gone = true;
            s.send_waker.take()
        };
        if let Some(w) = w {
            w.wake();
        }
    }
}
impl<T: Send + Sized> ConnectedSender<T> {
    pub fn try_send(&self, item: T) -> Result<(), GlommioError<T>> {
        let w = {
            let mut s = self.0 .0.lock().unwrap();
            if s.receiver_gone {
                return Err(GlommioError::Closed(ResourceType::Channel(item)));
            }
            if s.q.len() >= s.cap {
                return Err(GlommioError::WouldBlock(ResourceType::Channel(item)));
            }
            s.q.push_back(item);
            s.recv_waker.take()
        };
        engine::log("ch-send", 0, 0);
        if let Some(w) = w {
            w.wake();
        }
        Ok(())
    }
    pub async fn send(&self, item: T) -> Result<(), GlommioError<T>> {
        fault::seam_point("ch-send");
        let mut item = Some(item);
        std::future::poll_fn(|c| match self.try_send(item.take().unwrap()) {
            Ok(()) => Poll::Ready(Ok(())),
            Err(GlommioError::WouldBlock(ResourceType::Channel(i))) => {
                item = Some(i);
                self.0 .0.lock().unwrap().send_waker = Some(c.waker().clone());
                Poll::Pending
            }
            Err(e) => Poll::Ready(Err(e)),
        })
        .await
    }
}
impl<T: Send + Sized> ConnectedReceiver<T> {
    fn poll_recv(&self, c: &mut Context<'_>) -> Poll<Option<T>> {
        let (v, w) = {
            let mut s = self.0 .0.lock().unwrap();
            if let Some(v) = s.q.pop_front() {
                (Some(v), s.send_waker.take())
            } else if s.sender_gone {
                return Poll::Ready(None);
            } else {
                s.recv_waker = Some(c.waker().clone());
                return Poll::Pending;
            }
        };
        engine::log("ch-recv", 0, 0);
        fault::seam_point("ch-recv");
        if let Some(w) = w {
            w.wake();
        }
        Poll::Ready(v)
    }
    pub async fn recv(&self) -> Option<T> {
        std::future::poll_fn(|c| self.poll_recv(c)).await
    }
}
impl<T: Send + Sized> futures_lite::Stream for ConnectedReceiver<T> {
    type Item = T;
    fn poll_next(self: Pin<&mut Self>, c: &mut Context<'_>) -> Poll<Option<T>> {
        self.poll_recv(c)
    }
}
